//@@ unit SASLMECH
//@@ gsubst `.strip_prefix(` => `.strip_prefix_v(` rule=R9
//@@ gsubst `.starts_with(` => `.starts_with_v(` rule=R9
#![feature(allocator_api)]
#![allow(unused_imports, unused_variables, dead_code, unused_mut, unused_parens)]
use vstd::prelude::*;

verus! {

global size_of usize == 8;

//@@ include common.rs
//@@ trusted cryptographic primitives are uninterpreted: ScramVersion::{hmac, h, compute_salted_password} and xor are stand-ins whose results are the uninterpreted spec functions sp_hmac / sp_h / sp_hi / sp_xor of their arguments (no property of HMAC, SHA or PBKDF2 is assumed beyond being functions)
//@@ trusted strip_prefix removes exactly the prefix's UTF-8 bytes; a comma-separated part is no longer than the string it was taken from, and the last of two or more parts is at least one byte (the comma) shorter; from_utf8 returns a string whose UTF-8 bytes are the input
//@@ trusted string/base64 library calls are stand-ins with uninterpreted results: str::{strip_prefix, starts_with, split(',').collect, parse::<u32>} (trait StrV), base64 STANDARD.encode/decode, core::str::from_utf8, bytes::BufMut::{put_slice, put_u8} on Vec<u8> (append), Vec<u8> == &[u8] (extensional equality of the byte sequences)
//@@ trusted the byte-string literals b"Server Key" / b"Client Key" are replaced by functions returning those bytes (Verus gives byte-string literals no view); a change of the literal is reported as a lost anchor
//@@ trusted lengths of the in-memory strings handled here are below 2^32 (they come out of SASL frames bounded by the frame size): only used for the `Vec::with_capacity` sums
//@@ trusted built as with feature scram; usize is 64 bits

macro_rules! opaque {
    ($($n:ident),*) => { verus!{ $(
        #[verifier::external_body]
        pub struct $n { _p: u8 }
    )* } }
}
opaque!(Utf8Error, DecodeError, InvalidLength, StringprepError, ParseIntError);
pub struct XorLengthMismatch {}

// ---------------------------------------------------------------- spec vocabulary
pub uninterp spec fn sp_strip(s: Seq<char>, k: Seq<char>) -> Option<Seq<char>>;
pub uninterp spec fn sp_starts(s: Seq<char>, k: Seq<char>) -> bool;
pub uninterp spec fn sp_split(s: Seq<char>) -> Seq<Seq<char>>;
pub uninterp spec fn sp_parse_u32(s: Seq<char>) -> Option<u32>;
pub uninterp spec fn sp_utf8(b: Seq<u8>) -> Option<Seq<char>>;
pub uninterp spec fn sp_b64enc(b: Seq<u8>) -> Seq<char>;
pub uninterp spec fn sp_b64dec(s: Seq<char>) -> Option<Seq<u8>>;
pub open spec fn sp_bytes(s: Seq<char>) -> Seq<u8> { vstd::utf8::encode_utf8(s) }
pub uninterp spec fn sp_hmac(v: ScramVersion, key: Seq<u8>, msg: Seq<u8>) -> Option<Seq<u8>>;
pub uninterp spec fn sp_h(v: ScramVersion, x: Seq<u8>) -> Seq<u8>;
pub uninterp spec fn sp_hi(v: ScramVersion, password: Seq<char>, salt: Seq<u8>, iters: u32) -> Option<Seq<u8>>;
/// RFC 5802: XOR of two octet strings of the same length, octet by octet
pub open spec fn sp_xor(a: Seq<u8>, b: Seq<u8>) -> Option<Seq<u8>> { if a.len() != b.len() { None } else { Some(Seq::new(a.len(), |i: int| a[i] ^ b[i])) } }

pub const PEER_ITERATIONS_CEILING: u32 = 0x400_0000;
//@@ type file=fe2o3-amqp/src/auth/scram/mod.rs kind=const name=MAX_SCRAM_ITERATIONS optional
//@@ end
pub open spec fn small(n: int) -> bool { n < 0x1_0000_0000 }
pub open spec fn medium(n: int) -> bool { n < 0x100_0000_0000 }

pub trait StrV {
    spec fn sv(&self) -> Seq<char>;
    fn strip_prefix_v<'a>(&'a self, k: &str) -> (r: Option<&'a str>)
        ensures (match r { Some(x) => sp_strip(self.sv(), k@) == Some(x@) && sp_bytes(self.sv()).len() == sp_bytes(k@).len() + sp_bytes(x@).len(), None => sp_strip(self.sv(), k@) is None });
    fn starts_with_v(&self, k: &str) -> (r: bool) ensures r == sp_starts(self.sv(), k@);
    fn split_comma<'a>(&'a self) -> (r: Vec<&'a str>)
        ensures r@.len() == sp_split(self.sv()).len(), forall|i: int| 0 <= i < r@.len() ==> (#[trigger] r@[i])@ == sp_split(self.sv())[i] && sp_bytes(r@[i]@).len() <= sp_bytes(self.sv()).len(),
                r@.len() >= 2 ==> sp_bytes(r@[r@.len() - 1]@).len() + 1 <= sp_bytes(self.sv()).len();
    fn parse_u32(&self) -> (r: Result<u32, ParseIntError>)
        ensures (match r { Ok(x) => sp_parse_u32(self.sv()) == Some(x), Err(_) => sp_parse_u32(self.sv()) is None });
    fn len_v(&self) -> (r: usize) ensures r == sp_bytes(self.sv()).len();
}
impl StrV for str {
    open spec fn sv(&self) -> Seq<char> { self@ }
    #[verifier::external_body]
    fn strip_prefix_v<'a>(&'a self, k: &str) -> (r: Option<&'a str>) { unimplemented!() }
    #[verifier::external_body]
    fn starts_with_v(&self, k: &str) -> (r: bool) { unimplemented!() }
    #[verifier::external_body]
    fn split_comma<'a>(&'a self) -> (r: Vec<&'a str>) { unimplemented!() }
    #[verifier::external_body]
    fn parse_u32(&self) -> (r: Result<u32, ParseIntError>) { unimplemented!() }
    #[verifier::external_body]
    fn len_v(&self) -> (r: usize) { unimplemented!() }
}
pub trait BufMut {
    spec fn bv(&self) -> Seq<u8>;
    fn put_slice(&mut self, src: &[u8]) ensures final(self).bv() == old(self).bv() + src@;
    fn put_u8(&mut self, n: u8) ensures final(self).bv() == old(self).bv().push(n);
}
impl BufMut for Vec<u8> {
    open spec fn bv(&self) -> Seq<u8> { self@ }
    #[verifier::external_body]
    fn put_slice(&mut self, src: &[u8]) { unimplemented!() }
    #[verifier::external_body]
    fn put_u8(&mut self, n: u8) { unimplemented!() }
}
pub assume_specification[ String::as_bytes ](s: &String) -> (r: &[u8]) ensures r@ == sp_bytes(s@);
pub assume_specification<T: Clone> [ <[T]>::to_vec ](s: &[T]) -> (r: Vec<T>) ensures r@.len() == s@.len();
#[verifier::external_body]
pub fn b64_encode_str(s: &str) -> (r: String) ensures r@ == sp_b64enc(sp_bytes(s@)) { unimplemented!() }
#[verifier::external_body]
pub fn b64_encode(b: Vec<u8>) -> (r: String) ensures r@ == sp_b64enc(b@) { unimplemented!() }
#[verifier::external_body]
pub fn b64_decode(s: &str) -> (r: Result<Vec<u8>, DecodeError>)
    ensures (match r { Ok(x) => sp_b64dec(s@) == Some(x@), Err(_) => sp_b64dec(s@) is None }),
{ unimplemented!() }
#[verifier::external_body]
pub fn str_from_utf8<'a>(b: &'a [u8]) -> (r: Result<&'a str, Utf8Error>)
    ensures (match r { Ok(x) => sp_utf8(b@) == Some(x@) && sp_bytes(x@) == b@, Err(_) => sp_utf8(b@) is None }),
{ unimplemented!() }
#[verifier::external_body]
pub fn into_bytes(s: String) -> (r: Vec<u8>) ensures r@ == sp_bytes(s@) { unimplemented!() }
#[verifier::external_body]
pub fn bytes_eq(a: &Vec<u8>, b: &[u8]) -> (r: bool) ensures r == (a@ == b@) { unimplemented!() }
#[verifier::external_body]
pub fn xor(lhs: &[u8], rhs: &[u8]) -> (r: Result<Vec<u8>, XorLengthMismatch>)
    ensures (match r { Ok(x) => sp_xor(lhs@, rhs@) == Some(x@), Err(_) => sp_xor(lhs@, rhs@) is None }),
{ unimplemented!() }
#[verifier::external_body]
pub fn lit_server_key() -> (r: &'static [u8]) ensures r@ == server_key_label() { b"Server Key" }
#[verifier::external_body]
pub fn lit_client_key() -> (r: &'static [u8]) ensures r@ == client_key_label() { b"Client Key" }
pub fn xor_into(e: XorLengthMismatch) -> (r: ScramErrorKind) ensures r is XorLengthMismatch { ScramErrorKind::XorLengthMismatch }

//@@ type file=fe2o3-amqp/src/auth/scram/attributes.rs kind=const name=GS2_HEADER
//@@ subst `&str` => `&'static str` rule=R11
//@@ end
//@@ type file=fe2o3-amqp/src/auth/scram/attributes.rs kind=const name=USERNAME_KEY
//@@ subst `&str` => `&'static str` rule=R11
//@@ end
//@@ type file=fe2o3-amqp/src/auth/scram/attributes.rs kind=const name=RESERVED_MEXT
//@@ subst `&str` => `&'static str` rule=R11
//@@ end
//@@ type file=fe2o3-amqp/src/auth/scram/attributes.rs kind=const name=NONCE_KEY
//@@ subst `&str` => `&'static str` rule=R11
//@@ end
//@@ type file=fe2o3-amqp/src/auth/scram/attributes.rs kind=const name=CHANNEL_BINDING_KEY
//@@ subst `&str` => `&'static str` rule=R11
//@@ end
//@@ type file=fe2o3-amqp/src/auth/scram/attributes.rs kind=const name=SALT_KEY
//@@ subst `&str` => `&'static str` rule=R11
//@@ end
//@@ type file=fe2o3-amqp/src/auth/scram/attributes.rs kind=const name=ITERATION_COUNT_KEY
//@@ subst `&str` => `&'static str` rule=R11
//@@ end
//@@ type file=fe2o3-amqp/src/auth/scram/attributes.rs kind=const name=PROOF_KEY
//@@ subst `&str` => `&'static str` rule=R11
//@@ end
//@@ type file=fe2o3-amqp/src/auth/scram/attributes.rs kind=const name=VERIFIER_KEY
//@@ subst `&str` => `&'static str` rule=R11
//@@ end

//@@ type file=fe2o3-amqp/src/auth/scram/mod.rs kind=enum name=ScramVersion clone
//@@ end
//@@ type file=fe2o3-amqp/src/auth/scram/error.rs kind=enum name=ScramErrorKind
//@@ subst `stringprep::Error` => `StringprepError` rule=R11
//@@ end


/// `?` converts errors with `From::from`; the From impls of the error types involved (thiserror #[from] attributes, the hand-written
/// impls in auth/scram/error.rs and transport/error.rs, and the reflexive impl) written out as ErrInto impls  (R27)
pub trait ErrInto<T>: Sized { spec fn conv(self) -> T; fn err_into(self) -> (r: T) ensures r == self.conv(); }
macro_rules! err_into {
    ($($from:ty => $to:ty : |$e:ident| $body:expr);* $(;)?) => { verus!{ $(
        impl ErrInto<$to> for $from { open spec fn conv(self) -> $to { let $e = self; $body } fn err_into(self) -> (r: $to) { let $e = self; $body } }
    )* } }
}
err_into!(
    ScramErrorKind => ScramErrorKind : |e| e;
    Utf8Error => ScramErrorKind : |e| ScramErrorKind::Utf8Error(e);
    DecodeError => ScramErrorKind : |e| ScramErrorKind::Base64DecodeError(e);
    InvalidLength => ScramErrorKind : |e| ScramErrorKind::HmacErrorInvalidLength(e);
    StringprepError => ScramErrorKind : |e| ScramErrorKind::NormalizeError(e);
    XorLengthMismatch => ScramErrorKind : |e| ScramErrorKind::XorLengthMismatch;
);

pub open spec fn comma() -> Seq<u8> { seq![44u8] }
/// client-final-message-without-proof := "c=" base64("n,,") ",r=" nonce
pub open spec fn sp_without_proof(nonce: Seq<char>) -> Seq<u8> {
    sp_bytes(CHANNEL_BINDING_KEY@) + sp_bytes(sp_b64enc(sp_bytes(GS2_HEADER@))) + comma() + sp_bytes(NONCE_KEY@) + sp_bytes(nonce)
}
/// AuthMessage := client-first-message-bare "," server-first-message "," client-final-message-without-proof
pub open spec fn sp_auth_message(bare: Seq<u8>, server_first: Seq<u8>, wo_proof: Seq<u8>) -> Seq<u8> {
    bare + comma() + server_first + comma() + wo_proof
}
pub open spec fn server_key_label() -> Seq<u8> { seq![83u8, 101, 114, 118, 101, 114, 32, 75, 101, 121] }
pub open spec fn client_key_label() -> Seq<u8> { seq![67u8, 108, 105, 101, 110, 116, 32, 75, 101, 121] }
/// ServerSignature := HMAC(HMAC(SaltedPassword, "Server Key"), AuthMessage)
pub open spec fn sp_server_signature(v: ScramVersion, salted: Seq<u8>, auth: Seq<u8>) -> Option<Seq<u8>> {
    match sp_hmac(v, salted, server_key_label()) { Some(k) => sp_hmac(v, k, auth), None => None }
}
/// ClientProof := ClientKey XOR HMAC(H(ClientKey), AuthMessage)
pub open spec fn sp_client_proof(v: ScramVersion, salted: Seq<u8>, auth: Seq<u8>) -> Option<Seq<u8>> {
    match sp_hmac(v, salted, client_key_label()) {
        Some(ck) => match sp_hmac(v, sp_h(v, ck), auth) { Some(sig) => sp_xor(ck, sig), None => None },
        None => None,
    }
}
/// what the server-first message must look like for the client to go on, and what the client then expects the server to prove
pub struct ServerFirst { pub nonce: Seq<char>, pub salt: Seq<u8>, pub iters: u32 }
pub open spec fn sp_parse_server_first(sf: Seq<char>) -> Option<ServerFirst> {
    let parts = sp_split(sf);
    if parts.len() < 3 { None } else {
        match (sp_strip(parts[0], NONCE_KEY@), sp_strip(parts[1], SALT_KEY@), sp_strip(parts[2], ITERATION_COUNT_KEY@)) {
            (Some(n), Some(s), Some(i)) => match (sp_b64dec(s), sp_parse_u32(i)) {
                (Some(salt), Some(iters)) => Some(ServerFirst { nonce: n, salt, iters }),
                _ => None,
            },
            _ => None,
        }
    }
}
pub open spec fn sp_expected_server_signature(v: ScramVersion, password: Seq<char>, bare: Seq<u8>, server_first: Seq<char>) -> Option<Seq<u8>> {
    match sp_parse_server_first(server_first) {
        Some(sf) => match sp_hi(v, password, sf.salt, sf.iters) {
            Some(salted) => sp_server_signature(v, salted, sp_auth_message(bare, sp_bytes(server_first), sp_without_proof(sf.nonce))),
            None => None,
        },
        None => None,
    }
}

//@@ fn file=fe2o3-amqp/src/auth/scram/mod.rs name=auth_message
//@@ spec
    requires medium(client_first_message_bare@.len() as int), medium(server_first_message@.len() as int), medium(client_final_message_without_proof@.len() as int),
    ensures
        r@ == sp_auth_message(client_first_message_bare@, server_first_message@, client_final_message_without_proof@),   // [C19.scram.auth-message] AuthMessage covers the client-first-bare, the server-first as received and the client-final-without-proof
//@@ end

//@@ fn file=fe2o3-amqp/src/auth/scram/mod.rs name=without_proof
//@@ subst `base64::engine::general_purpose::STANDARD.encode(GS2_HEADER).into_bytes()` => `into_bytes(b64_encode_str(GS2_HEADER))` rule=R9
//@@ subst `CHANNEL_BINDING_KEY.len()` => `CHANNEL_BINDING_KEY.len_v()` rule=R9
//@@ subst `NONCE_KEY.len()` => `NONCE_KEY.len_v()` rule=R9
//@@ subst `client_server_nonce.len()` => `client_server_nonce.len_v()` rule=R9
//@@ subst `use base64::Engine;` => `` rule=R9
//@@ spec
    requires small(sp_bytes(client_server_nonce@).len() as int), small(sp_bytes(sp_b64enc(sp_bytes(GS2_HEADER@))).len() as int),
             small(sp_bytes(CHANNEL_BINDING_KEY@).len() as int), small(sp_bytes(NONCE_KEY@).len() as int),
    ensures
        r@ == sp_without_proof(client_server_nonce@),   // [C19.scram.auth-message]
//@@ end

//@@ fn file=fe2o3-amqp/src/auth/scram/mod.rs name=client_final
//@@ subst `PROOF_KEY.len()` => `PROOF_KEY.len_v()` rule=R9
//@@ spec
    requires medium(client_final_message_without_proof@.len() as int), medium(client_proof@.len() as int), small(sp_bytes(PROOF_KEY@).len() as int),
    ensures
        r@ == client_final_message_without_proof@ + comma() + sp_bytes(PROOF_KEY@) + client_proof@,
//@@ end

impl ScramVersion {
    #[verifier::external_body]
    pub fn hmac(&self, key: &[u8], input: &[u8]) -> (r: Result<Vec<u8>, InvalidLength>)
        ensures (match r { Ok(x) => sp_hmac(*self, key@, input@) == Some(x@), Err(_) => sp_hmac(*self, key@, input@) is None }),
    { unimplemented!() }
    #[verifier::external_body]
    pub fn h(&self, s: &[u8]) -> (r: Vec<u8>) ensures r@ == sp_h(*self, s@) { unimplemented!() }
    #[verifier::external_body]
    pub fn compute_salted_password(&self, password: &str, salt: &[u8], iterations: u32) -> (r: Result<Vec<u8>, ScramErrorKind>)
        ensures (match r { Ok(x) => sp_hi(*self, password@, salt@, iterations) == Some(x@), Err(_) => sp_hi(*self, password@, salt@, iterations) is None }),
    { unimplemented!() }

    /// `self.compute_salted_password(password, salt, iterations)` as the CLIENT calls it: `iterations` comes out of the server-first message, i.e. the peer chose it
    #[verifier::external_body]
    pub fn derive_with_peer_chosen_count(&self, password: &str, salt: &[u8], iterations: u32) -> (r: Result<Vec<u8>, ScramErrorKind>)
        requires iterations <= PEER_ITERATIONS_CEILING,      // [C15.scram.peer-iteration-count-capped] the PBKDF2 iteration count a server announces decides how long the client computes (synchronously, on the runtime thread): `i=4294967295` in one 60-octet sasl-challenge kept the client busy for hours. The derivation runs only for a count below a ceiling (the check accepts any ceiling up to 2^26; deployments use 4096 .. a few 100 000)
        ensures (match r { Ok(x) => sp_hi(*self, password@, salt@, iterations) == Some(x@), Err(_) => sp_hi(*self, password@, salt@, iterations) is None }),
    { unimplemented!() }

//@@ fn file=fe2o3-amqp/src/auth/scram/mod.rs impl=`impl ScramVersion` name=compute_server_signature
//@@ generics
//@@ nowhere
//@@ qmark
//@@ ret Result<Vec<u8>, ScramErrorKind>
//@@ subst `b"Server Key"` => `lit_server_key()` rule=R9
//@@ spec
    ensures
        (match r { Ok(x) => sp_server_signature(*self, salted_password@, auth_message@) == Some(x@), Err(_) => sp_server_signature(*self, salted_password@, auth_message@) is None }),   // [C19.scram.server-signature-formula]
//@@ end

//@@ fn file=fe2o3-amqp/src/auth/scram/mod.rs impl=`impl ScramVersion` name=compute_client_proof
//@@ generics
//@@ nowhere
//@@ qmark
//@@ ret Result<Vec<u8>, ScramErrorKind>
//@@ subst `b"Client Key"` => `lit_client_key()` rule=R9
//@@ subst `.map_err(Into::into)` => `.map_err(|e: XorLengthMismatch| -> (o: ScramErrorKind) { e.err_into() })` rule=R18 unless `\.map_err\(`
//@@ spec
    ensures
        (match r { Ok(x) => sp_client_proof(*self, salted_password@, auth_message@) == Some(x@), Err(_) => sp_client_proof(*self, salted_password@, auth_message@) is None }),   // [C19.scram.client-proof-formula]
//@@ end

//@@ fn file=fe2o3-amqp/src/auth/scram/mod.rs impl=`impl ScramVersion` name=compute_client_final_message
//@@ qmark
//@@ subst `base64::engine::general_purpose::STANDARD.decode(` => `b64_decode(` rule=R9
//@@ subst `use base64::Engine;` => `` rule=R9
//@@ subst `server_first.split(',').collect()` => `server_first.split_comma()` rule=R9
//@@ subst `.parse()` => `.parse_u32()` rule=R9
//@@ subst `|_v0| ScramErrorKind::IterationCountParseError` => `|_v0: ParseIntError| -> (o: ScramErrorKind) { ScramErrorKind::IterationCountParseError }` rule=R18
//@@ subst `self.compute_salted_password::<ScramErrorKind>(` => `self.derive_with_peer_chosen_count(` rule=R7
//@@ subst `&salt[..]` => `salt.as_slice()` rule=R9
//@@ subst `self.compute_client_proof::<ScramErrorKind>(` => `self.compute_client_proof(` rule=R7
//@@ subst `self.compute_server_signature::<ScramErrorKind>(` => `self.compute_server_signature(` rule=R7
//@@ subst `base64::engine::general_purpose::STANDARD.encode(client_proof_bytes)` => `b64_encode(client_proof_bytes)` rule=R9
//@@ spec
    requires
        small(sp_bytes(server_first@).len() as int), small(client_first_message_bare@.len() as int),
        small(sp_bytes(CHANNEL_BINDING_KEY@).len() as int), small(sp_bytes(NONCE_KEY@).len() as int), small(sp_bytes(PROOF_KEY@).len() as int),
        forall|p: Seq<u8>| small(sp_bytes(#[trigger] sp_b64enc(p)).len() as int),
    ensures
        r is Ok ==> ({
            let sf = sp_parse_server_first(server_first@);
            &&& sf is Some
            &&& sp_starts(sf->Some_0.nonce, client_nonce@)                                                               // [C19.scram.nonce-extends] the client goes on only if the server's nonce extends the nonce the client sent
            &&& sp_expected_server_signature(*self, password@, client_first_message_bare@, server_first@) == Some(r->Ok_0.1@)   // [C19.scram.signature-over-exchange] the signature the client will demand is HMAC(ServerKey(password, salt, i), AuthMessage) over THIS exchange: its own client-first-bare, the server-first exactly as received, and c=,r=<combined nonce>
        }),
//@@ end

//@@ fn file=fe2o3-amqp/src/auth/scram/mod.rs impl=`impl ScramVersion` name=validate_server_final
//@@ qmark
//@@ subst `std::str::from_utf8(` => `str_from_utf8(` rule=R9
//@@ subst `base64::engine::general_purpose::STANDARD.decode(` => `b64_decode(` rule=R9
//@@ subst `use base64::Engine;` => `` rule=R9
//@@ subst `server_final.split(',').collect()` => `server_final.split_comma()` rule=R9
//@@ subst `|signature| signature.strip_prefix(VERIFIER_KEY)` => `|signature: &&str| -> (o: Option<&str>) ensures (match o { Some(x) => sp_strip(signature@, VERIFIER_KEY@) == Some(x@), None => sp_strip(signature@, VERIFIER_KEY@) is None }) { signature.strip_prefix_v(VERIFIER_KEY) }` rule=R18
//@@ subst `signature_bytes == server_signature` => `bytes_eq(&signature_bytes, server_signature)` rule=R9 unless `(==|!=)server_signature|signature_bytes(==|!=)`
//@@ spec
    ensures
        r is Ok ==> sp_verifier(server_final@) == Some(server_signature@),   // [C19.scram.server-signature-checked] the client accepts the server-final message only if it carries, as `v=` base64, exactly the signature the client computed itself
//@@ end
}

/// the signature a server-final message carries: v=<base64> in its first comma-separated part
pub open spec fn sp_verifier(server_final: Seq<u8>) -> Option<Seq<u8>> {
    match sp_utf8(server_final) {
        Some(s) => if sp_split(s).len() == 0 { None } else {
            match sp_strip(sp_split(s)[0], VERIFIER_KEY@) { Some(sig) => sp_b64dec(sig), None => None }
        },
        None => None,
    }
}

// ================================================================ the SCRAM client state machine (auth/scram/client.rs)
pub type Bytes = Vec<u8>;
pub type Binary = Vec<u8>;

//@@ type file=fe2o3-amqp/src/auth/scram/client.rs kind=enum name=ScramClientState
//@@ end
//@@ type file=fe2o3-amqp/src/auth/scram/client.rs kind=struct name=ScramClient
//@@ end

/// the bound between a client waiting for the server-final message and the exchange that led there
pub open spec fn sig_bound(c: ScramClient, bare: Seq<u8>, sf: Seq<char>, cn: Seq<char>) -> bool {
    &&& c.state is ClientFinalSent
    &&& sp_parse_server_first(sf) is Some
    &&& sp_starts(sp_parse_server_first(sf)->Some_0.nonce, cn)
    &&& sp_expected_server_signature(c.scram, c.password@, bare, sf) == Some(c.state->ClientFinalSent_server_signature@)
}
pub open spec fn b64_small() -> bool { forall|p: Seq<u8>| small(sp_bytes(#[trigger] sp_b64enc(p)).len() as int) }
pub open spec fn consts_small() -> bool {
    small(sp_bytes(CHANNEL_BINDING_KEY@).len() as int) && small(sp_bytes(NONCE_KEY@).len() as int) && small(sp_bytes(PROOF_KEY@).len() as int)
}
pub open spec fn client_small(c: ScramClient) -> bool {
    c.state is ClientFirstSent ==> small(c.state->ClientFirstSent_client_first_message_bare@.len() as int)
}

/// std::ops::{BitXor, BitOr, BitAnd} on `&u8` called as methods: the operators they are
pub trait BitOpsS: Sized { spec fn val(self) -> u8; fn bitxor(self, r: &u8) -> (o: u8) ensures o == self.val() ^ *r; fn bitor(self, r: &u8) -> (o: u8) ensures o == self.val() | *r; fn bitand(self, r: &u8) -> (o: u8) ensures o == self.val() & *r; }
impl BitOpsS for &u8 { open spec fn val(self) -> u8 { *self } fn bitxor(self, r: &u8) -> (o: u8) { *self ^ *r } fn bitor(self, r: &u8) -> (o: u8) { *self | *r } fn bitand(self, r: &u8) -> (o: u8) { *self & *r } }
//@@ fn file=fe2o3-amqp/src/auth/scram/mod.rs name=xor as=xor_real id=scram::xor
//@@ shape loops=for
//@@ subst `lhs .iter() .zip(rhs.iter()) .map(|(l, r)| __E1) .collect()` => `{ let mut __o: Vec<u8> = Vec::new(); for __i in __it0: 0..lhs.len() { let l = &lhs[__i]; let r = &rhs[__i]; __o.push(__E1); } __o }` rule=R34
//@@ loop 0
            invariant lhs@.len() == rhs@.len(), __o@.len() == __i, forall|j: int| 0 <= j < __i ==> #[trigger] __o@[j] == lhs@[j] ^ rhs@[j],
//@@ spec
    ensures (match r { Ok(x) => sp_xor(lhs@, rhs@) == Some(x@), Err(_) => sp_xor(lhs@, rhs@) is None }),       // [C19.scram.xor-is-octetwise] the XOR that combines ClientKey and ClientSignature into the proof (and recovers the key from the proof on the listener) is the octet-by-octet XOR of two strings of the same length, refused for different lengths
//@@ end
/// `bytes.slice(n..)` on a frozen buffer: the octets from n on
#[verifier::external_body]
pub fn bytes_slice_from(b: &Bytes, n: usize) -> (r: Bytes) requires n <= b@.len() ensures r@ == b@.skip(n as int) { unimplemented!() }
/// RFC 5802 section 7: gs2-header "n,," (no channel binding, no authzid), attribute names "n=" and "r="
pub proof fn lemma_scram_attribute_names()
    ensures GS2_HEADER@ == "n,,"@, USERNAME_KEY@ == "n="@, NONCE_KEY@ == "r="@,       // [C19.constants.scram-attribute-names] the attribute names of the client-first message are RFC 5802's
{ reveal_strlit("n,,"); reveal_strlit("n="); reveal_strlit("r="); }
impl ScramVersion {
//@@ fn file=fe2o3-amqp/src/auth/scram/mod.rs impl=`impl ScramVersion` name=client_first_message as=client_first_message_real id=ScramVersion::client_first_message
//@@ subst `BytesMut::new()` => `Vec::<u8>::new()` rule=R9
//@@ subst `let client_first_message = bytes.freeze();` => `let client_first_message = bytes;` rule=R9
//@@ subst `GS2_HEADER.len()` => `GS2_HEADER.len_v()` rule=R9
//@@ subst `client_first_message.slice(gs2_header_len..)` => `bytes_slice_from(&client_first_message, gs2_header_len)` rule=R9
//@@ spec
    ensures
        r.0@ == sp_bytes(GS2_HEADER@) + sp_bytes(USERNAME_KEY@) + username@ + seq![0x2cu8] + sp_bytes(NONCE_KEY@) + nonce@,       // [C19.client.scram.client-first-format] the client-first message is RFC 5802's `gs2-header n=<user>,r=<nonce>`: exactly the user name and the nonce given, in that order
        r.1@ == sp_bytes(USERNAME_KEY@) + username@ + seq![0x2cu8] + sp_bytes(NONCE_KEY@) + nonce@,       // [C19.client.scram.bare-is-the-message-without-the-gs2-header] the "bare" message -- the part the AuthMessage and with it both signatures are computed over -- is the same octets without the gs2 header
//@@ end
}
impl ScramVersion {
    /// ScramVersion::client_first_message (`n,,n=<user>,r=<nonce>` and the same without the gs2 header): stand-in
    #[verifier::external_body]
    pub fn client_first_message(&self, username: &[u8], nonce: &[u8]) -> (r: (Bytes, Bytes))
        requires exists|t: Seq<char>| fresh_text(t) && nonce@ == sp_bytes(t),        // [C19.client.scram.fresh-client-nonce] every exchange gets a client nonce drawn for it (32 octets from the random source, when THIS message is computed): a server-first / server-final pair recorded from the genuine server cannot be replayed to a later connection of the same (cloned) profile, because the nonce it answers is never sent again
        ensures small(r.1@.len() as int),
    { unimplemented!() }
}
impl ScramClient {
//@@ fn file=fe2o3-amqp/src/auth/scram/client.rs impl=`impl ScramClient` name=compute_client_first_message
//@@ subst `use base64::Engine;` => `` rule=optional-R6
//@@ subst `base64::engine::general_purpose::STANDARD.encode(generate_nonce())` => `b64_encode_nonce(generate_nonce())` rule=optional-R9
//@@ spec
    ensures final(self).state is ClientFirstSent, client_small(*final(self)),
        final(self).username == old(self).username, final(self).password == old(self).password, final(self).scram == old(self).scram,
        exists|t: Seq<char>| fresh_text(t) && final(self).state->ClientFirstSent_client_nonce@ == t,       // [C19.client.scram.nonce-remembered-is-nonce-sent] the nonce the client later checks the server's nonce against is the fresh one it sent
//@@ end

//@@ fn file=fe2o3-amqp/src/auth/scram/client.rs impl=`impl ScramClient` name=compute_client_final_message
//@@ qmark
//@@ spec
    requires
        small(sp_bytes(server_first@).len() as int), client_small(*old(self)), b64_small(), consts_small(),
    ensures
        final(self).username == old(self).username && final(self).password == old(self).password && final(self).scram == old(self).scram,
        r is Ok ==> ({
            &&& old(self).state is ClientFirstSent                                                               // [C19.scram.client-order] a challenge is only answered after the client-first message was sent (never twice, never before)
            &&& sig_bound(*final(self), old(self).state->ClientFirstSent_client_first_message_bare@, server_first@, old(self).state->ClientFirstSent_client_nonce@)   // [C19.scram.challenge-binds-signature] answering the challenge stores the signature the server must present, bound to this client's password, its own first message and the server-first as received; the server nonce must extend the client's
        }),
        r is Err ==> final(self).state == old(self).state,
//@@ end

//@@ fn file=fe2o3-amqp/src/auth/scram/client.rs impl=`impl ScramClient` name=validate_server_final
//@@ qmark
//@@ spec
    ensures
        final(self).username == old(self).username && final(self).password == old(self).password && final(self).scram == old(self).scram,
        r is Ok ==> ({
            &&& old(self).state is ClientFinalSent
            &&& sp_verifier(server_final@) == Some(old(self).state->ClientFinalSent_server_signature@)          // [C19.scram.server-signature-checked]
            &&& final(self).state is Complete
        }),
        r is Err ==> final(self).state == old(self).state,
//@@ end
}

// ================================================================ SaslProfile::on_frame (sasl_profile/mod.rs)
opaque!(Symbol, SaslMechanisms, SaslResponseX, IoError);
impl SaslMechanisms {
    #[verifier::external_body]
    pub fn contains_mech(&self, m: &Symbol) -> (r: bool) { unimplemented!() }
}
//@@ type file=fe2o3-amqp-types/src/sasl/mod.rs kind=enum name=SaslCode keeprepr
//@@ end
//@@ type file=fe2o3-amqp-types/src/sasl/mod.rs kind=struct name=SaslOutcome
//@@ end
//@@ type file=fe2o3-amqp-types/src/sasl/mod.rs kind=struct name=SaslInit
//@@ end
//@@ type file=fe2o3-amqp-types/src/sasl/mod.rs kind=struct name=SaslChallenge
//@@ end
//@@ type file=fe2o3-amqp-types/src/sasl/mod.rs kind=struct name=SaslResponse
//@@ end
pub mod sasl {
    use super::*;
//@@ type file=fe2o3-amqp/src/frames/sasl.rs kind=enum name=Frame
//@@ end
}
//@@ type file=fe2o3-amqp/src/sasl_profile/scram.rs kind=struct name=SaslScramSha1
//@@ end
//@@ type file=fe2o3-amqp/src/sasl_profile/scram.rs kind=struct name=SaslScramSha256
//@@ end
//@@ type file=fe2o3-amqp/src/sasl_profile/scram.rs kind=struct name=SaslScramSha512
//@@ end
//@@ type file=fe2o3-amqp/src/sasl_profile/mod.rs kind=enum name=SaslProfile
//@@ end
//@@ type file=fe2o3-amqp/src/sasl_profile/mod.rs kind=enum name=Negotiation
//@@ end
//@@ type file=fe2o3-amqp/src/sasl_profile/error.rs kind=enum name=Error
//@@ end

err_into!(
    Error => Error : |e| e;
    ScramErrorKind => Error : |e| Error::ScramError(e);
);
#[verifier::external_body]
pub fn fmt_msg() -> (r: String) { unimplemented!() }
#[verifier::external_body]
pub fn opt_str_into(h: Option<&str>) -> (r: Option<String>) { unimplemented!() }
pub fn binary_from(v: Vec<u8>) -> (r: Binary) ensures r@ == v@ { v }

pub open spec fn scram_of(p: SaslProfile) -> Option<ScramClient> {
    match p {
        SaslProfile::ScramSha1(s) => Some(s.client),
        SaslProfile::ScramSha256(s) => Some(s.client),
        SaslProfile::ScramSha512(s) => Some(s.client),
        _ => None,
    }
}
/// the profile keeps its kind and its credentials
pub open spec fn same_creds(a: SaslProfile, b: SaslProfile) -> bool {
    match (scram_of(a), scram_of(b)) {
        (Some(x), Some(y)) => x.username == y.username && x.password == y.password && x.scram == y.scram,
        (None, None) => a == b,
        _ => false,
    }
}

//@@ strconsts file=fe2o3-amqp/src/sasl_profile/mod.rs names=SCRAM_SHA_1,SCRAM_SHA_256,SCRAM_SHA_512,EXTERNAL,ANONYMOUS,PLAIN lemma=lemma_mechanism_names_distinct label=`[C19.constants.mechanism-names-distinct] the mechanism names are pairwise different strings`
pub uninterp spec fn sym_text(s: Symbol) -> Seq<char>;
#[verifier::external_body]
pub fn symbol_from_str(v: &str) -> (r: Symbol) ensures sym_text(r) == v@ { unimplemented!() }
impl SaslProfile {
//@@ fn file=fe2o3-amqp/src/sasl_profile/mod.rs impl=`impl SaslProfile` name=mechanism as=mechanism_real id=SaslProfile::mechanism
//@@ subst `Symbol::from(value)` => `symbol_from_str(value)` rule=R16
//@@ spec
    ensures
        (match *self {
            SaslProfile::Anonymous => sym_text(r) == "ANONYMOUS"@,
            SaslProfile::Plain { .. } => sym_text(r) == "PLAIN"@,
            SaslProfile::External => sym_text(r) == "EXTERNAL"@,
            SaslProfile::ScramSha1(_) => sym_text(r) == "SCRAM-SHA-1"@,
            SaslProfile::ScramSha256(_) => sym_text(r) == "SCRAM-SHA-256"@,
            SaslProfile::ScramSha512(_) => sym_text(r) == "SCRAM-SHA-512"@,
        }),       // [C19.client.mechanism-named-as-registered] the mechanism a profile asks for in sasl-init is the IANA-registered name of the mechanism whose exchange it then performs (RFC 4422 / 4616 / 4505 / 5802 / 7677): a PLAIN profile never announces itself under another mechanism's name
//@@ end
}
impl SaslProfile {
    #[verifier::external_body]
    pub fn mechanism(&self) -> (r: Symbol) { unimplemented!() }
    /// stand-in for initial_response: a SCRAM profile (re)starts its exchange: client-first sent
    #[verifier::external_body]
    pub fn initial_response(&mut self) -> (r: Option<Binary>)
        ensures same_creds(*old(self), *final(self)),
            scram_of(*final(self)) is Some ==> scram_of(*final(self))->Some_0.state is ClientFirstSent && client_small(scram_of(*final(self))->Some_0),
    { unimplemented!() }

//@@ fn file=fe2o3-amqp/src/sasl_profile/mod.rs impl=`impl SaslProfile` name=initial_response as=initial_response_real id=SaslProfile::initial_response
//@@ blockarms
//@@ subst `Binary::from(buf)` => `binary_from(buf)` rule=R16
//@@ subst `Binary::from( scram_sha1.client.compute_client_first_message().to_vec(), )` => `binary_from(scram_sha1.client.compute_client_first_message().to_vec())` rule=R16
//@@ subst `Binary::from( scram_sha256.client.compute_client_first_message().to_vec(), )` => `binary_from(scram_sha256.client.compute_client_first_message().to_vec())` rule=R16
//@@ subst `Binary::from( scram_sha512.client.compute_client_first_message().to_vec(), )` => `binary_from(scram_sha512.client.compute_client_first_message().to_vec())` rule=R16
//@@ spec
    requires
        ((*old(self)) is Plain ==> small(sp_bytes((*old(self))->Plain_username@).len() as int) && small(sp_bytes((*old(self))->Plain_password@).len() as int)),       // (lengths below 2^32: only for the capacity sum)
    ensures
        same_creds(*old(self), *final(self)),
        (*old(self)) is Plain ==> r is Some && r->Some_0@ == seq![0u8] + sp_bytes((*old(self))->Plain_username@) + seq![0u8] + sp_bytes((*old(self))->Plain_password@),       // [C19.client.plain-initial-response] the PLAIN client's initial response is RFC 4616's message with an empty authorization identity: NUL, the user name, NUL, the password -- the octets of exactly the configured credentials, nothing else
        ((*old(self)) is Anonymous || (*old(self)) is External) ==> r is None,
        scram_of(*final(self)) is Some ==> r is Some && scram_of(*final(self))->Some_0.state is ClientFirstSent && client_small(scram_of(*final(self))->Some_0),       // [C19.client.scram.first-message-starts-the-exchange] a SCRAM profile (re)starts its exchange with a client-first message: the nonce is drawn then (compute_client_first_message above)
//@@ end

//@@ fn file=fe2o3-amqp/src/sasl_profile/mod.rs impl=`impl SaslProfile` name=on_frame
//@@ orsplit
//@@ qmark
//@@ subst `std::str::from_utf8(&challenge.challenge) .map_err(ScramErrorKind::Utf8Error)` => `str_from_utf8(&challenge.challenge).map_err(|e: Utf8Error| -> (o: ScramErrorKind) ensures o == ScramErrorKind::Utf8Error(e) { ScramErrorKind::Utf8Error(e) })` rule=R18 unless `\.map_err\(`
//@@ subst `use sasl::Frame;` => `use sasl::Frame;` rule=optional
//@@ subst `mechanisms.sasl_server_mechanisms.0.contains(&mechanism)` => `mechanisms.contains_mech(&mechanism)` rule=R9
//@@ subst `hostname.map(Into::into)` => `opt_str_into(hostname)` rule=R16
//@@ subst `format!( "{:?} is not supported", mechanism )` => `fmt_msg()` rule=R9
//@@ subst `"SASL Challenge is not implemented for ANONYMOUS, PLAIN, or EXTERNAL." .to_string()` => `fmt_msg()` rule=R9
//@@ subst `format!( "{:?} is not expected on client SASL profile", frame )` => `fmt_msg()` rule=R9
//@@ subst `Binary::from(client_final)` => `binary_from(client_final)` rule=R16
//@@ subst `fe2o3_amqp_types::sasl::SaslCode::Ok` => `SaslCode::Ok` rule=optional-R11
//@@ spec
    requires
        b64_small(), consts_small(),
        scram_of(*old(self)) is Some ==> client_small(scram_of(*old(self))->Some_0),
        frame is Challenge ==> small(frame->Challenge_0.challenge@.len() as int),
    ensures
        same_creds(*old(self), *final(self)),
        scram_of(*final(self)) is Some ==> client_small(scram_of(*final(self))->Some_0),
        r is Ok ==> (match frame {
            sasl::Frame::Mechanisms(_) => r->Ok_0 is Init,
            sasl::Frame::Challenge(_) => r->Ok_0 is Response,
            sasl::Frame::Outcome(o) => r->Ok_0 == Negotiation::Outcome(o),                                      // [C19.client.outcome-reported-as-is] the profile never rewrites the server's outcome
            _ => false,                                                                                          // [C19.client.unexpected-frames-rejected] server-to-client only: init/response frames from the server are an error
        }),
        frame is Mechanisms && r is Ok && scram_of(*old(self)) is Some ==> scram_of(*final(self))->Some_0.state is ClientFirstSent,   // [C19.scram.client-order] (re)starting an exchange discards any signature expectation of an earlier one
        frame is Challenge && scram_of(*old(self)) is None ==> r is Err,                                         // [C19.client.no-challenge-without-scram]
        frame is Challenge && scram_of(*old(self)) is Some && r is Ok ==> ({
            let c0 = scram_of(*old(self))->Some_0;
            &&& c0.state is ClientFirstSent
            &&& sp_utf8(frame->Challenge_0.challenge@) is Some
            &&& sig_bound(scram_of(*final(self))->Some_0, c0.state->ClientFirstSent_client_first_message_bare@, sp_utf8(frame->Challenge_0.challenge@)->Some_0, c0.state->ClientFirstSent_client_nonce@)   // [C19.scram.challenge-binds-signature]
        }),
        frame is Outcome && frame->Outcome_0.code is Ok && scram_of(*old(self)) is Some && r is Ok ==> ({
            let c0 = scram_of(*old(self))->Some_0;
            &&& c0.state is ClientFinalSent
            &&& frame->Outcome_0.additional_data is Some
            &&& sp_verifier(frame->Outcome_0.additional_data->Some_0@) == Some(c0.state->ClientFinalSent_server_signature@)   // [C19.scram.ok-outcome-needs-server-proof] a SCRAM client accepts an OK outcome only if it carries the server signature the client expects -- missing additional-data, a wrong signature, or an OK before the challenge was answered are errors
            &&& scram_of(*final(self))->Some_0.state is Complete
        }),
//@@ end
}

// ================================================================ the client negotiation loop (connection/builder.rs)
pub enum NegotiationError {
    Io(IoError),
    NotImplemented(Option<String>),
    SaslError { code: SaslCode, additional_data: Option<Binary> },
    ScramError(ScramErrorKind),
    Other,
}

err_into!(
    NegotiationError => NegotiationError : |e| e;
    Error => NegotiationError : |e| match e { Error::NotImplemented(msg) => NegotiationError::NotImplemented(msg), Error::ScramError(x) => NegotiationError::ScramError(x) };
);
#[verifier::external_body]
pub fn eof_error() -> (r: NegotiationError) { unimplemented!() }
/// the SASL transport: `next` yields an arbitrary frame (recorded in the ghost trace `recv`), an error or end-of-stream; `send` records nothing we need
pub struct SaslTransport { pub recv: Ghost<Seq<sasl::Frame>> }
impl SaslTransport {
    #[verifier::external_body]
    pub fn next(&mut self) -> (r: Option<Result<sasl::Frame, NegotiationError>>)
        ensures
            (match r { Some(Ok(f)) => final(self).recv@ == old(self).recv@.push(f), _ => final(self).recv@ == old(self).recv@ }),
            (match r { Some(Ok(sasl::Frame::Challenge(c))) => small(c.challenge@.len() as int), _ => true }),
    { unimplemented!() }
    #[verifier::external_body]
    pub fn send(&mut self, f: sasl::Frame) -> (r: Result<(), NegotiationError>)
        ensures final(self).recv@ == old(self).recv@,
    { unimplemented!() }
}
pub struct BuilderS<'a> { pub sasl_hostname: Option<&'a str> }

/// the server proved knowledge of the password: the OK outcome `o` carries the signature HMAC(ServerKey, AuthMessage) computed from the client's
/// password over an exchange whose server-first message `sf` was received as challenge number `i` and whose nonce extends the client's
pub open spec fn server_proved(c0: ScramClient, recv: Seq<sasl::Frame>, o: SaslOutcome, bare: Seq<u8>, sf: Seq<char>, cn: Seq<char>, i: int) -> bool {
    &&& 0 <= i < recv.len() && recv[i] is Challenge && sp_utf8(recv[i]->Challenge_0.challenge@) == Some(sf)
    &&& sp_parse_server_first(sf) is Some
    &&& sp_starts(sp_parse_server_first(sf)->Some_0.nonce, cn)
    &&& o.additional_data is Some
    &&& sp_expected_server_signature(c0.scram, c0.password@, bare, sf) is Some
    &&& sp_verifier(o.additional_data->Some_0@) == sp_expected_server_signature(c0.scram, c0.password@, bare, sf)
}

impl<'a> BuilderS<'a> {
//@@ fn file=fe2o3-amqp/src/connection/builder.rs impl=`impl<Tls> Builder<'_, mode::ConnectorWithId, Tls>` name=negotiate_sasl
//@@ attr #[verifier::loop_isolation(false)]
//@@ shape loops=whilelet
//@@ attr #[verifier::exec_allows_no_decreases_clause]
//@@ generics
//@@ nowhere
//@@ param transport : &mut SaslTransport
//@@ param profile : &mut SaslProfile
//@@ blockarms
//@@ qmark
//@@ subst `NegotiationError::Io(io::Error::new( io::ErrorKind::UnexpectedEof, "Expecting SASL negotiation", ))` => `eof_error()` rule=R9
//@@ spec
    requires
        b64_small(), consts_small(),
        scram_of(*old(profile)) is Some ==> !(scram_of(*old(profile))->Some_0.state is ClientFinalSent) && client_small(scram_of(*old(profile))->Some_0),
    ensures
        r is Ok ==> ({
            let rc = final(transport).recv@;
            &&& rc.len() > old(transport).recv@.len()
            &&& rc.last() is Outcome && rc.last()->Outcome_0.code is Ok                                          // [C19.client.ok-only-on-ok-outcome] negotiation succeeds only on an outcome frame with code OK: every other code, every error and end-of-stream fail it
        }),
        r is Ok && scram_of(*old(profile)) is Some ==>
            exists|bare: Seq<u8>, sf: Seq<char>, cn: Seq<char>, i: int|
                #[trigger] server_proved(scram_of(*old(profile))->Some_0, final(transport).recv@, final(transport).recv@.last()->Outcome_0, bare, sf, cn, i),   // [C19.scram.mutual] a SCRAM client proceeds only if the server proved knowledge of the password over the actual exchange
//@@ entry
        let ghost mut g_bare: Seq<u8> = Seq::empty();
        let ghost mut g_sf: Seq<char> = Seq::empty();
        let ghost mut g_cn: Seq<char> = Seq::empty();
        let ghost mut g_i: int = 0;
//@@ loop 0
        invariant
            b64_small(), consts_small(),
            same_creds(*old(profile), *profile),
            scram_of(*profile) is Some ==> client_small(scram_of(*profile)->Some_0),
            transport.recv@.len() >= old(transport).recv@.len(),
            scram_of(*profile) is Some && scram_of(*profile)->Some_0.state is ClientFinalSent ==> ({
                &&& sig_bound(scram_of(*profile)->Some_0, g_bare, g_sf, g_cn)
                &&& 0 <= g_i < transport.recv@.len() && transport.recv@[g_i] is Challenge && sp_utf8(transport.recv@[g_i]->Challenge_0.challenge@) == Some(g_sf)
            }),
//@@ at `let frame = (match frame { Ok(__v) => __v, Err(__e) => return Err(__e.err_into()) });` after
        let ghost gframe = frame;
        let ghost gprof = *profile;
        assert(transport.recv@.last() == gframe);
//@@ at `Negotiation::Response(response) => {` after
        proof {
            let c0 = scram_of(gprof)->Some_0;
            if scram_of(gprof) is Some {
                g_bare = c0.state->ClientFirstSent_client_first_message_bare@;
                g_sf = sp_utf8(gframe->Challenge_0.challenge@)->Some_0;
                g_cn = c0.state->ClientFirstSent_client_nonce@;
                g_i = transport.recv@.len() - 1;
            }
        }
//@@ at `return Ok(())` before
        proof {
            if scram_of(*old(profile)) is Some {
                assert(server_proved(scram_of(*old(profile))->Some_0, transport.recv@, transport.recv@.last()->Outcome_0, g_bare, g_sf, g_cn, g_i));
            }
        }
//@@ end
}

// ================================================================ the listener side (auth/scram/server.rs, acceptor/scram.rs)
//@@ type file=fe2o3-amqp/src/auth/scram/error.rs kind=enum name=ServerScramErrorKind
//@@ subst `stringprep::Error` => `StringprepError` rule=R11
//@@ end
//@@ type file=fe2o3-amqp/src/auth/scram/mod.rs kind=struct name=StoredPassword
//@@ end
err_into!(
    ServerScramErrorKind => ServerScramErrorKind : |e| e;
    Utf8Error => ServerScramErrorKind : |e| ServerScramErrorKind::Utf8Error(e);
    DecodeError => ServerScramErrorKind : |e| ServerScramErrorKind::Base64DecodeError(e);
    InvalidLength => ServerScramErrorKind : |e| ServerScramErrorKind::HmacErrorInvalidLength(e);
    XorLengthMismatch => ServerScramErrorKind : |e| ServerScramErrorKind::XorLengthMismatch;
);
#[verifier::external_body]
pub fn slice_eq(a: &[u8], b: &[u8]) -> (r: bool) ensures r == (a@ == b@) { unimplemented!() }

/// what the listener checks before it answers a client-final message `cf` with a server-final message:
/// the channel binding is "n,,", the nonce is the combined nonce of THIS exchange, and the client proof opens to the stored key:
///   H( proof XOR HMAC(StoredKey, AuthMessage) ) == StoredKey
pub open spec fn sp_client_final_ok(v: ScramVersion, cf: Seq<char>, csn: Seq<u8>, bare: Seq<u8>, sfm: Seq<u8>, stored_key: Seq<u8>) -> bool {
    let parts = sp_split(cf);
    &&& parts.len() >= 2
    &&& sp_strip(parts[0], CHANNEL_BINDING_KEY@) is Some
    &&& sp_b64dec(sp_strip(parts[0], CHANNEL_BINDING_KEY@)->Some_0) == Some(sp_bytes(GS2_HEADER@))
    &&& sp_strip(parts[1], NONCE_KEY@) is Some
    &&& sp_bytes(sp_strip(parts[1], NONCE_KEY@)->Some_0) == csn
    &&& sp_strip(parts.last(), PROOF_KEY@) is Some
    &&& ({
        let p = sp_strip(parts.last(), PROOF_KEY@)->Some_0;
        let wo = sp_bytes(cf).subrange(0, sp_bytes(cf).len() - (sp_bytes(p).len() + sp_bytes(PROOF_KEY@).len() + 1));
        let auth = sp_auth_message(bare, sfm, wo);
        &&& sp_b64dec(p) is Some
        &&& sp_hmac(v, stored_key, auth) is Some
        &&& sp_xor(sp_b64dec(p)->Some_0, sp_hmac(v, stored_key, auth)->Some_0) is Some
        &&& sp_h(v, sp_xor(sp_b64dec(p)->Some_0, sp_hmac(v, stored_key, auth)->Some_0)->Some_0) == stored_key
    })
}

impl ScramVersion {
//@@ fn file=fe2o3-amqp/src/auth/scram/server.rs impl=`impl ScramVersion` name=compute_server_final_message
//@@ qmark
//@@ subst `use base64::Engine;` => `` rule=R9
//@@ subst `std::str::from_utf8(` => `str_from_utf8(` rule=R9
//@@ subst `client_final.split(',').collect()` => `client_final.split_comma()` rule=R9
//@@ subst `|s| s.strip_prefix(CHANNEL_BINDING_KEY)` => `|s: &&str| -> (o: Option<&str>) ensures (match o { Some(x) => sp_strip(s@, CHANNEL_BINDING_KEY@) == Some(x@) && sp_bytes(s@).len() == sp_bytes(CHANNEL_BINDING_KEY@).len() + sp_bytes(x@).len(), None => sp_strip(s@, CHANNEL_BINDING_KEY@) is None }) { s.strip_prefix_v(CHANNEL_BINDING_KEY) }` rule=R18
//@@ subst `|s| s.strip_prefix(NONCE_KEY)` => `|s: &&str| -> (o: Option<&str>) ensures (match o { Some(x) => sp_strip(s@, NONCE_KEY@) == Some(x@) && sp_bytes(s@).len() == sp_bytes(NONCE_KEY@).len() + sp_bytes(x@).len(), None => sp_strip(s@, NONCE_KEY@) is None }) { s.strip_prefix_v(NONCE_KEY) }` rule=R18
//@@ subst `|s| s.strip_prefix(PROOF_KEY)` => `|s: &&str| -> (o: Option<&str>) ensures (match o { Some(x) => sp_strip(s@, PROOF_KEY@) == Some(x@) && sp_bytes(s@).len() == sp_bytes(PROOF_KEY@).len() + sp_bytes(x@).len(), None => sp_strip(s@, PROOF_KEY@) is None }) { s.strip_prefix_v(PROOF_KEY) }` rule=R18
//@@ subst `base64::engine::general_purpose::STANDARD.decode(` => `b64_decode(` rule=R9
//@@ subst `base64::engine::general_purpose::STANDARD.encode(` => `b64_encode(` rule=R9
//@@ subst `channel_binding != GS2_HEADER.as_bytes()` => `!bytes_eq(&channel_binding, GS2_HEADER.as_bytes())` rule=R9 unless `channel_binding(==|!=)|(==|!=)channel_binding`
//@@ subst `nonce.as_bytes() != client_server_nonce` => `!slice_eq(nonce.as_bytes(), client_server_nonce)` rule=R9 unless `(==|!=)client_server_nonce|client_server_nonce(==|!=)`
//@@ subst `stored_key_from_client != stored_password.stored_key` => `!bytes_eq(&stored_key_from_client, stored_password.stored_key)` rule=R9 unless `(==|!=)stored_password\.stored_key|stored_key_from_client(==|!=)`
//@@ subst `client_final.len()` => `client_final.len_v()` rule=R9
//@@ subst `client_proof.len()` => `client_proof.len_v()` rule=R9
//@@ subst `PROOF_KEY.len()` => `PROOF_KEY.len_v()` rule=R9
//@@ subst `&client_final.as_bytes()[0..without_proof_message_len]` => `vstd::slice::slice_subrange(client_final.as_bytes(), 0, without_proof_message_len)` rule=R9
//@@ spec
    requires
        small(client_final@.len() as int), small(client_first_message_bare@.len() as int), small(server_first_message@.len() as int),
    ensures
        r is Ok ==> ({
            &&& sp_utf8(client_final@) is Some
            &&& sp_client_final_ok(*self, sp_utf8(client_final@)->Some_0, client_server_nonce@, client_first_message_bare@, server_first_message@, stored_password.stored_key@)   // [C19.listener.scram.client-proof-verified] a server-final message (and with it an OK outcome) is produced only for a client-final message whose nonce is this exchange's combined nonce and whose proof opens to the stored key over this exchange's AuthMessage
        }),
//@@ end
}

// ---------------------------------------------------------------- ScramAuthenticator (auth/scram/server.rs) and its SaslAcceptor impl (acceptor/scram.rs)
/// the credential store (`C: ScramCredentialProvider`): an arbitrary function from user names to stored passwords
pub struct Creds { pub g: Ghost<int> }
pub uninterp spec fn sp_version(c: Creds) -> ScramVersion;
pub uninterp spec fn sp_stored(c: Creds, username: Seq<char>) -> Option<(Seq<u8>, u32, Seq<u8>, Seq<u8>)>;
impl Creds {
    #[verifier::external_body]
    pub fn scram_version(&self) -> (r: &ScramVersion) ensures *r == sp_version(*self) { unimplemented!() }
    #[verifier::external_body]
    pub fn get_stored_password<'a>(&'a self, username: &str) -> (r: Option<StoredPassword<'a>>)
        ensures (match r {
            Some(p) => sp_stored(*self, username@) == Some((p.salt@, p.iterations, p.stored_key@, p.server_key@)),
            None => sp_stored(*self, username@) is None,
        }),
    { unimplemented!() }
}
//@@ type file=fe2o3-amqp/src/auth/scram/server.rs kind=enum name=ScramAuthenticatorState
//@@ end
//@@ type file=fe2o3-amqp/src/auth/scram/server.rs kind=struct name=ScramAuthenticator
//@@ subst `<C: ScramCredentialProvider + Clone>` => `` rule=R7
//@@ subst `credentials: C` => `credentials: Creds` rule=R7
//@@ end
//@@ type file=fe2o3-amqp/src/acceptor/sasl_acceptor.rs kind=enum name=SaslServerFrame
//@@ end
#[verifier::external_body]
pub fn init_mechanism_is(init: &SaslInit, c: &Creds) -> (r: bool) { unimplemented!() }
/// a value drawn from the random number generator by the call that is running now
pub uninterp spec fn fresh_nonce(n: Seq<u8>) -> bool;
//@@ trusted the random source (`rand::rng().random()`) is a stand-in: a value drawn AS 32 OCTETS is a fresh nonce (fresh_nonce: 256 bits from the thread-local CSPRNG); a value drawn as one octet, or anything computed from fewer drawn octets, is not provably one
pub struct ThreadRng {}
pub mod rand { pub fn rng() -> super::ThreadRng { super::ThreadRng {} } }
pub trait Drawn: Sized { spec fn well_drawn(self) -> bool; fn draw() -> (r: Self) ensures r.well_drawn(); }
impl Drawn for [u8; 32] { open spec fn well_drawn(self) -> bool { fresh_nonce(self@) } #[verifier::external_body] fn draw() -> (r: Self) { unimplemented!() } }
impl Drawn for u8 { open spec fn well_drawn(self) -> bool { true } #[verifier::external_body] fn draw() -> (r: Self) { unimplemented!() } }
impl ThreadRng { pub fn random<T: Drawn>(&mut self) -> (r: T) ensures r.well_drawn() { T::draw() } }
//@@ fn file=fe2o3-amqp/src/auth/scram/mod.rs name=generate_nonce
//@@ spec
    ensures fresh_nonce(r@),         // [C19.scram.nonce-is-32-drawn-octets] every nonce (the listener's and the client's) is 32 octets drawn from the random source for this exchange: a nonce with less entropy (one octet repeated, a counter) comes round again, and a recorded client-first / client-final pair then authenticates a peer that never knew the password
//@@ end
/// the base64 text of a nonce is as fresh as the nonce
pub uninterp spec fn fresh_text(s: Seq<char>) -> bool;
#[verifier::external_body]
pub fn b64_encode_nonce(n: [u8; 32]) -> (r: String) ensures fresh_text(r@) == fresh_nonce(n@) { unimplemented!() }
#[verifier::external_body]
pub fn str_to_string(s: &str) -> (r: String) ensures r@ == s@ { unimplemented!() }
pub struct ServerFirstMessage<'a> { pub username: &'a str, pub client_first_message_bare: Bytes, pub client_server_nonce: Bytes, pub message: Bytes }
impl ScramVersion {
    /// ScramVersion::compute_server_first_message (parses client-first, looks the user up, builds `r=<client nonce><server nonce>,s=<salt>,i=<iterations>`): stand-in
    #[verifier::external_body]
    pub fn compute_server_first_message<'a>(&self, client_first_message: &'a [u8], base64_server_nonce: &str, credentials: &Creds) -> (r: Result<Option<ServerFirstMessage<'a>>, ServerScramErrorKind>)
        requires fresh_text(base64_server_nonce@),        // [C19.listener.scram.fresh-server-nonce] every exchange gets a server nonce drawn for it: a recorded client-first / client-final pair cannot be replayed against the listener, because the nonce it was computed for is never offered again
        ensures r is Ok && r->Ok_0 is Some ==> small(r->Ok_0->Some_0.client_first_message_bare@.len() as int) && small(r->Ok_0->Some_0.message@.len() as int),
    { unimplemented!() }
}

/// the client authenticated: the listener was waiting for a client-final message of a known user and that message checks out against the user's stored key
pub open spec fn sp_authenticated(a: ScramAuthenticator, client_final: Seq<u8>) -> bool {
    &&& a.state is ServerFirstSent
    &&& sp_stored(a.credentials, a.state->ServerFirstSent_username@) is Some
    &&& sp_utf8(client_final) is Some
    &&& sp_client_final_ok(sp_version(a.credentials), sp_utf8(client_final)->Some_0, a.state->ServerFirstSent_client_server_nonce@,
            a.state->ServerFirstSent_client_first_message_bare@, a.state->ServerFirstSent_server_first_message@,
            sp_stored(a.credentials, a.state->ServerFirstSent_username@)->Some_0.2)
}
pub open spec fn auth_small(a: ScramAuthenticator) -> bool {
    a.state is ServerFirstSent ==> small(a.state->ServerFirstSent_client_first_message_bare@.len() as int) && small(a.state->ServerFirstSent_server_first_message@.len() as int)
}

impl ScramAuthenticator {
    pub fn credentials(&self) -> (r: &Creds) ensures *r == self.credentials { &self.credentials }
//@@ fn file=fe2o3-amqp/src/auth/scram/server.rs impl=`~impl<C>ScramAuthenticator<C>` name=compute_server_first_message
//@@ qmark
//@@ ret Result<Option<Vec<u8>>, ServerScramErrorKind>
//@@ subst `use base64::Engine;` => `` rule=optional-R6
//@@ subst `base64::engine::general_purpose::STANDARD.encode(nonce)` => `b64_encode_nonce(nonce)` rule=optional-R9
//@@ subst `server_first.username.to_string()` => `str_to_string(server_first.username)` rule=R16
//@@ subst `server_first.message.to_vec()` => `server_first.message.clone()` rule=R9
//@@ spec
    requires auth_small(*old(self)),
    ensures
        final(self).credentials == old(self).credentials, auth_small(*final(self)),
        r is Ok && r->Ok_0 is None ==> final(self).state == old(self).state,
        !(final(self).state is ServerFinalSent) || old(self).state is ServerFinalSent,       // [C19.listener.scram.first-never-authenticates] answering a client-first message never completes an authentication (it can only (re)start one)
//@@ end

//@@ fn file=fe2o3-amqp/src/auth/scram/server.rs impl=`~impl<C>ScramAuthenticator<C>` name=compute_server_final_message
//@@ qmark
//@@ ret Result<Option<Vec<u8>>, ServerScramErrorKind>
//@@ spec
    requires
        small(client_final_message@.len() as int), auth_small(*old(self)),
    ensures
        final(self).credentials == old(self).credentials,
        (match r { Ok(Some(_)) => sp_authenticated(*old(self), client_final_message@) && final(self).state is ServerFinalSent, _ => final(self).state == old(self).state }),   // [C19.listener.scram.final-needs-proof] a server-final message exists only for an authenticated client; unknown user, bad proof, wrong nonce and out-of-order messages produce none and leave the state alone
//@@ end

//@@ fn file=fe2o3-amqp/src/acceptor/scram.rs impl=`~impl<C>SaslAcceptorforScramAuthenticator<C>` name=on_init
//@@ subst `fe2o3_amqp_types::sasl::SaslInit` => `SaslInit` rule=R11
//@@ subst `init.mechanism.as_str() == self.credentials().scram_version().mechanism()` => `init_mechanism_is(&init, self.credentials())` rule=R9
//@@ subst `Binary::from(server_first)` => `binary_from(server_first)` rule=R16
//@@ spec
    requires auth_small(*old(self)),
    ensures
        final(self).credentials == old(self).credentials, auth_small(*final(self)),
        r is Outcome ==> !(r->Outcome_0.code is Ok),                                                            // [C19.listener.scram.init-never-ok] the first SCRAM step never yields an OK outcome
//@@ end

//@@ fn file=fe2o3-amqp/src/acceptor/scram.rs impl=`~impl<C>SaslAcceptorforScramAuthenticator<C>` name=on_response
//@@ subst `fe2o3_amqp_types::sasl::SaslResponse` => `SaslResponse` rule=R11
//@@ subst `Binary::from(server_final_message)` => `binary_from(server_final_message)` rule=R16
//@@ spec
    requires
        small(response.response@.len() as int), auth_small(*old(self)),
    ensures
        final(self).credentials == old(self).credentials,
        r is Outcome,
        r->Outcome_0.code is Ok ==> sp_authenticated(*old(self), response.response@),                          // [C19.listener.scram.ok-needs-client-proof] the SCRAM listener says OK only to a client whose proof verifies against the stored key of the user named in its first message, over this exchange -- wrong password, unknown user, replayed/foreign nonce, skipped first step: never OK
        r->Outcome_0.code is Ok ==> final(self).state is ServerFinalSent,                                       // [C19.listener.scram.one-shot] ... and the exchange is then over: a second response is out of order
//@@ end
}

// ================================================================ the PLAIN mechanism of the listener (acceptor/sasl_acceptor.rs)
//@@ type file=fe2o3-amqp/src/acceptor/sasl_acceptor.rs kind=struct name=SaslPlainMechanism
//@@ subst `Arc<String>` => `String` rule=R11
//@@ end
pub uninterp spec fn sp_split_nul(b: Seq<u8>) -> Seq<Seq<u8>>;
/// `response.split(|b| *b == 0u8)`: an iterator over the NUL-separated pieces
pub struct SplitNul<'a> { pub src: &'a Vec<u8>, pub pos: Ghost<int> }
#[verifier::external_body]
pub fn split_nul<'a>(v: &'a Vec<u8>) -> (r: SplitNul<'a>) ensures r.src == v, r.pos@ == 0 { unimplemented!() }
impl<'a> SplitNul<'a> {
    #[verifier::external_body]
    pub fn next(&mut self) -> (r: Option<&'a [u8]>)
        ensures final(self).src == old(self).src,
            (match r {
                Some(x) => 0 <= old(self).pos@ < sp_split_nul(old(self).src@).len() && x@ == sp_split_nul(old(self).src@)[old(self).pos@] && final(self).pos@ == old(self).pos@ + 1,
                None => old(self).pos@ >= sp_split_nul(old(self).src@).len() && final(self).pos@ == old(self).pos@,
            }),
    { unimplemented!() }
}
/// `init.mechanism.as_str() != PLAIN`
pub uninterp spec fn sym_is_plain(s: Symbol) -> bool;
#[verifier::external_body]
pub fn mechanism_is_not_plain(s: &Symbol) -> (r: bool) ensures r == !sym_is_plain(*s) { unimplemented!() }
/// RFC 4616: message = [authzid] NUL authcid NUL passwd -- the second and third NUL-separated pieces are the configured user name and password
pub open spec fn sp_plain_valid(m: SaslPlainMechanism, init: SaslInit) -> bool {
    &&& sym_is_plain(init.mechanism)                                       // the mechanism selected is the one this acceptor offers (AMQP 5.3.3.2)
    &&& init.initial_response is Some
    &&& sp_split_nul(init.initial_response->Some_0@).len() == 3           // exactly three pieces: the password cannot contain a NUL, so a fourth piece means the response is not `[authzid] NUL authcid NUL passwd`
    &&& sp_split_nul(init.initial_response->Some_0@)[1] == sp_bytes(m.username@)
    &&& sp_split_nul(init.initial_response->Some_0@)[2] == sp_bytes(m.password@)
}
impl SaslPlainMechanism {
//@@ fn file=fe2o3-amqp/src/acceptor/sasl_acceptor.rs impl=`impl SaslPlainMechanism` name=validate_credential
//@@ subst `self.username.as_bytes() == authcid` => `slice_eq(self.username.as_bytes(), authcid)` rule=R9 unless `(==|!=)authcid|authcid(==|!=)`
//@@ subst `self.password.as_bytes() == passwd` => `slice_eq(self.password.as_bytes(), passwd)` rule=R9 unless `(==|!=)passwd|passwd(==|!=)`
//@@ spec
    ensures
        r is Ok <==> authcid@ == sp_bytes(self.username@) && passwd@ == sp_bytes(self.password@),            // [C19.listener.plain.credential-compare] OK exactly when both the user name and the password are byte-for-byte the configured ones
        !(r is Ok) ==> r is Auth,
//@@ end

//@@ fn file=fe2o3-amqp/src/acceptor/sasl_acceptor.rs impl=`impl SaslPlainMechanism` name=validate_init
//@@ subst `.into_vec()` => `` rule=R16
//@@ subst `response.split(|b| *b == 0u8)` => `split_nul(&response)` rule=R9
//@@ subst `init.mechanism.as_str() != PLAIN` => `mechanism_is_not_plain(&init.mechanism)` rule=optional-R9
//@@ spec
    ensures
        (match r { Some(c) => c is Ok || c is Auth, None => true }),
        r == Some(SaslCode::Ok) ==> sp_plain_valid(*self, init),                                                // [C19.listener.plain.ok-needs-credentials]
//@@ end

//@@ fn file=fe2o3-amqp/src/acceptor/sasl_acceptor.rs impl=`impl SaslAcceptor for SaslPlainMechanism` name=on_init as=plain_on_init
//@@ spec
    ensures
        r is Outcome,
        r->Outcome_0.code is Ok ==> sp_plain_valid(*old(self), init),                                            // [C19.listener.plain.ok-needs-credentials] the PLAIN listener says OK only to the configured user name and password; a missing response, fewer than three fields or any differing byte give AUTH
        !(r->Outcome_0.code is Ok) ==> r->Outcome_0.code is Auth,
//@@ end

//@@ fn file=fe2o3-amqp/src/acceptor/sasl_acceptor.rs impl=`impl SaslAcceptor for SaslPlainMechanism` name=on_response as=plain_on_response
//@@ param _response : SaslResponse
//@@ spec
    ensures
        r is Outcome && !(r->Outcome_0.code is Ok),                                                              // [C19.listener.plain.response-never-ok] PLAIN has no second step: a response frame never authenticates
//@@ end
}

} // verus!
fn main() {}
