//@@ unit SERFIX
#![feature(allocator_api)]
#![allow(unused_imports, unused_variables, dead_code, unused_mut, unused_parens)]
use vstd::prelude::*;

verus! {

//@@ trusted std::io::Write stand-in: write_all appends the slice or fails (the writer of `to_vec` is a Vec<u8>)
//@@ trusted iN/uN::to_be_bytes routed to wrappers with the big-endian spec (R14); `v as u8` / `v as u32` casts are Verus' own (two's complement truncation)
//@@ trusted Serializer<W> / SizeSerializer: only the fields these functions touch are kept (writer, is_array_elem / is_array_element); methods of `impl ser::Serializer for &mut …` are re-homed (by-value `self` is `&mut`)
//@@ trusted f32/f64::to_be_bytes are the big-endian octets of the IEEE 754 bit pattern f32_bits / f64_bits (uninterpreted; the Kani harnesses rt_f32 / rt_f64 decide the bit-exact round trip outside arrays)

pub open spec fn be32(x: u32) -> Seq<u8> { seq![(x >> 24) as u8, ((x >> 16) & 0xff) as u8, ((x >> 8) & 0xff) as u8, (x & 0xff) as u8] }
//@@ include fixspec.rs
#[verifier::external_body] pub fn i16_to_be_bytes(x: i16) -> (r: [u8; 2]) ensures r@ == be16(x as u16) { x.to_be_bytes() }
#[verifier::external_body] pub fn u16_to_be_bytes(x: u16) -> (r: [u8; 2]) ensures r@ == be16(x) { x.to_be_bytes() }
#[verifier::external_body] pub fn i32_to_be_bytes(x: i32) -> (r: [u8; 4]) ensures r@ == be32(x as u32) { x.to_be_bytes() }
#[verifier::external_body] pub fn u32_to_be_bytes(x: u32) -> (r: [u8; 4]) ensures r@ == be32(x) { x.to_be_bytes() }
#[verifier::external_body] pub fn u64_to_be_bytes(x: u64) -> (r: [u8; 8]) ensures r@ == be64(x) { x.to_be_bytes() }
/// the IEEE 754 bit pattern of a float (f32::to_bits: uninterpreted here, as in unit READERS; the Kani harnesses rt_f32 / rt_f64 decide the bit-exact round trip outside arrays)
pub uninterp spec fn f32_bits(x: f32) -> u32;
pub uninterp spec fn f64_bits(x: f64) -> u64;
#[verifier::external_body] pub fn f32_to_be_bytes(x: f32) -> (r: [u8; 4]) ensures r@ == be32(f32_bits(x)) { x.to_be_bytes() }
#[verifier::external_body] pub fn f64_to_be_bytes(x: f64) -> (r: [u8; 8]) ensures r@ == be64(f64_bits(x)) { x.to_be_bytes() }
pub open spec fn enc_f32(v: f32, e: IsArrayElement) -> Seq<u8> { fixed(0x72u8, be32(f32_bits(v)), e) }
pub open spec fn enc_f64(v: f64, e: IsArrayElement) -> Seq<u8> { fixed(0x82u8, be64(f64_bits(v)), e) }

#[verifier::external_body]
pub struct IoError { _p: u8 }
pub enum Error { Io(IoError), Other }
pub trait ErrInto<T>: Sized { spec fn conv(self) -> T; fn err_into(self) -> (r: T) ensures r == self.conv(); }
impl ErrInto<Error> for Error { open spec fn conv(self) -> Error { self } fn err_into(self) -> (r: Error) { let e = self; assert(e == <Error as ErrInto<Error>>::conv(self)); e } }
impl ErrInto<Error> for IoError { open spec fn conv(self) -> Error { Error::Io(self) } fn err_into(self) -> (r: Error) { Error::Io(self) } }
pub struct VecWriter { pub out: Vec<u8> }
impl VecWriter {
    #[verifier::external_body]
    pub fn write_all(&mut self, b: &[u8]) -> (r: Result<(), IoError>)
        ensures r is Ok ==> final(self).out@ == old(self).out@ + b@,
    { unimplemented!() }
}
//@@ type file=serde_amqp/src/format_code.rs kind=enum name=EncodingCodes keeprepr
//@@ end
//@@ type file=serde_amqp/src/util.rs kind=enum name=IsArrayElement
//@@ end
pub struct Serializer { pub writer: VecWriter, pub is_array_elem: IsArrayElement }
pub struct SizeSerializer { pub is_array_element: IsArrayElement }
pub open spec fn added(o: Serializer, f: Serializer) -> Seq<u8> { f.writer.out@.skip(o.writer.out@.len() as int) }
pub open spec fn appended(o: Serializer, f: Serializer) -> bool { o.writer.out@.len() <= f.writer.out@.len() && f.writer.out@.subrange(0, o.writer.out@.len() as int) =~= o.writer.out@ }
impl Serializer {
//@@ fn file=serde_amqp/src/ser.rs impl=`~ser::Serializer for &'a mut Serializer<W>` name=serialize_i8
//@@ selfmut
//@@ qmark
//@@ ret Result<(), Error>
//@@ subst `.map_err(Into::into)` => `.map_err(|e: IoError| -> (o: Error) { Error::Io(e) })` rule=optional-R17

//@@ spec
    ensures
        final(self).is_array_elem == old(self).is_array_elem,
        r is Ok ==> appended(*old(self), *final(self)),
        r is Ok ==> added(*old(self), *final(self)) =~= enc_i8(v, old(self).is_array_elem),      // [C05.i8.encoding] [C03.rt.encoder-premise] AMQP 1.0 part 1, 1.6: constructor 0x51 + 1 data octet(s) big-endian; inside an array the constructor once, then data only
//@@ end

//@@ fn file=serde_amqp/src/ser.rs impl=`~ser::Serializer for &'a mut Serializer<W>` name=serialize_i16
//@@ selfmut
//@@ qmark
//@@ ret Result<(), Error>
//@@ subst `.map_err(Into::into)` => `.map_err(|e: IoError| -> (o: Error) { Error::Io(e) })` rule=optional-R17
//@@ subst `v.to_be_bytes()` => `i16_to_be_bytes(v)` rule=R14
//@@ spec
    ensures
        final(self).is_array_elem == old(self).is_array_elem,
        r is Ok ==> appended(*old(self), *final(self)),
        r is Ok ==> added(*old(self), *final(self)) =~= enc_i16(v, old(self).is_array_elem),      // [C05.i16.encoding] [C03.rt.encoder-premise] AMQP 1.0 part 1, 1.6: constructor 0x61 + 2 data octet(s) big-endian; inside an array the constructor once, then data only
//@@ end

//@@ fn file=serde_amqp/src/ser.rs impl=`~ser::Serializer for &'a mut Serializer<W>` name=serialize_i32
//@@ selfmut
//@@ qmark
//@@ ret Result<(), Error>
//@@ subst `.map_err(Into::into)` => `.map_err(|e: IoError| -> (o: Error) { Error::Io(e) })` rule=optional-R17
//@@ subst `v.to_be_bytes()` => `i32_to_be_bytes(v)` rule=R14
//@@ subst `val.to_be_bytes()` => `i32_to_be_bytes(val)` rule=R14
//@@ spec
    ensures
        final(self).is_array_elem == old(self).is_array_elem,
        r is Ok ==> appended(*old(self), *final(self)),
        r is Ok ==> added(*old(self), *final(self)) =~= enc_i32(v, old(self).is_array_elem),      // [C05.i32.encoding] [C03.rt.encoder-premise] AMQP 1.0 part 1, 1.6: constructor 0x71 + 4 data octet(s) big-endian (smallint 0x54 when it fits one signed octet); inside an array the constructor once, then data only
//@@ end

//@@ fn file=serde_amqp/src/ser.rs impl=`~ser::Serializer for &'a mut Serializer<W>` name=serialize_u8
//@@ selfmut
//@@ qmark
//@@ ret Result<(), Error>
//@@ subst `.map_err(Into::into)` => `.map_err(|e: IoError| -> (o: Error) { Error::Io(e) })` rule=optional-R17

//@@ spec
    ensures
        final(self).is_array_elem == old(self).is_array_elem,
        r is Ok ==> appended(*old(self), *final(self)),
        r is Ok ==> added(*old(self), *final(self)) =~= enc_u8(v, old(self).is_array_elem),      // [C05.u8.encoding] [C03.rt.encoder-premise] AMQP 1.0 part 1, 1.6: constructor 0x50 + 1 data octet(s) big-endian; inside an array the constructor once, then data only
//@@ end

//@@ fn file=serde_amqp/src/ser.rs impl=`~ser::Serializer for &'a mut Serializer<W>` name=serialize_u16
//@@ selfmut
//@@ qmark
//@@ ret Result<(), Error>
//@@ subst `.map_err(Into::into)` => `.map_err(|e: IoError| -> (o: Error) { Error::Io(e) })` rule=optional-R17
//@@ subst `v.to_be_bytes()` => `u16_to_be_bytes(v)` rule=R14
//@@ spec
    ensures
        final(self).is_array_elem == old(self).is_array_elem,
        r is Ok ==> appended(*old(self), *final(self)),
        r is Ok ==> added(*old(self), *final(self)) =~= enc_u16(v, old(self).is_array_elem),      // [C05.u16.encoding] [C03.rt.encoder-premise] AMQP 1.0 part 1, 1.6: constructor 0x60 + 2 data octet(s) big-endian; inside an array the constructor once, then data only
//@@ end

//@@ fn file=serde_amqp/src/ser.rs impl=`~ser::Serializer for &'a mut Serializer<W>` name=serialize_u32
//@@ selfmut
//@@ qmark
//@@ ret Result<(), Error>
//@@ subst `.map_err(Into::into)` => `.map_err(|e: IoError| -> (o: Error) { Error::Io(e) })` rule=optional-R17
//@@ subst `v.to_be_bytes()` => `u32_to_be_bytes(v)` rule=R14
//@@ subst `val.to_be_bytes()` => `u32_to_be_bytes(val)` rule=R14
//@@ spec
    ensures
        final(self).is_array_elem == old(self).is_array_elem,
        r is Ok ==> appended(*old(self), *final(self)),
        r is Ok ==> added(*old(self), *final(self)) =~= enc_u32(v, old(self).is_array_elem),      // [C05.u32.encoding] [C03.rt.encoder-premise] AMQP 1.0 part 1, 1.6: constructor 0x70 + 4 data octet(s) big-endian (uint0 0x43 / smalluint 0x52 when they fit); inside an array the constructor once, then data only
//@@ end

//@@ fn file=serde_amqp/src/ser.rs impl=`~ser::Serializer for &'a mut Serializer<W>` name=serialize_u64
//@@ selfmut
//@@ qmark
//@@ ret Result<(), Error>
//@@ subst `.map_err(Into::into)` => `.map_err(|e: IoError| -> (o: Error) { Error::Io(e) })` rule=optional-R17
//@@ subst `v.to_be_bytes()` => `u64_to_be_bytes(v)` rule=R14
//@@ subst `val.to_be_bytes()` => `u64_to_be_bytes(val)` rule=R14
//@@ spec
    ensures
        final(self).is_array_elem == old(self).is_array_elem,
        r is Ok ==> appended(*old(self), *final(self)),
        r is Ok ==> added(*old(self), *final(self)) =~= enc_u64(v, old(self).is_array_elem),      // [C05.u64.encoding] [C03.rt.encoder-premise] AMQP 1.0 part 1, 1.6: constructor 0x80 + 8 data octet(s) big-endian (ulong0 0x44 / smallulong 0x53 when they fit); inside an array the constructor once, then data only
//@@ end

//@@ fn file=serde_amqp/src/ser.rs impl=`~ser::Serializer for &'a mut Serializer<W>` name=serialize_f32
//@@ selfmut
//@@ qmark
//@@ ret Result<(), Error>
//@@ subst `.map_err(Into::into)` => `.map_err(|e: IoError| -> (o: Error) { Error::Io(e) })` rule=optional-R17
//@@ subst `v.to_be_bytes()` => `f32_to_be_bytes(v)` rule=R14
//@@ spec
    ensures
        final(self).is_array_elem == old(self).is_array_elem,
        r is Ok ==> appended(*old(self), *final(self)),
        r is Ok ==> added(*old(self), *final(self)) =~= enc_f32(v, old(self).is_array_elem),      // [C05.float.encoding] [C03.rt.encoder-premise] AMQP 1.0 part 1, 1.6: constructor 0x72 + the 4 octets of the IEEE 754 binary32 pattern, big-endian; inside an array the constructor once, then data only
//@@ end

//@@ fn file=serde_amqp/src/ser.rs impl=`~ser::Serializer for &'a mut Serializer<W>` name=serialize_f64
//@@ selfmut
//@@ qmark
//@@ ret Result<(), Error>
//@@ subst `.map_err(Into::into)` => `.map_err(|e: IoError| -> (o: Error) { Error::Io(e) })` rule=optional-R17
//@@ subst `v.to_be_bytes()` => `f64_to_be_bytes(v)` rule=R14
//@@ spec
    ensures
        final(self).is_array_elem == old(self).is_array_elem,
        r is Ok ==> appended(*old(self), *final(self)),
        r is Ok ==> added(*old(self), *final(self)) =~= enc_f64(v, old(self).is_array_elem),      // [C05.double.encoding] [C03.rt.encoder-premise] constructor 0x82 + the 8 octets of the IEEE 754 binary64 pattern, big-endian; inside an array the constructor once, then data only
//@@ end

//@@ fn file=serde_amqp/src/ser.rs impl=`~ser::Serializer for &'a mut Serializer<W>` name=serialize_char
//@@ selfmut
//@@ qmark
//@@ ret Result<(), Error>
//@@ subst `.map_err(Into::into)` => `.map_err(|e: IoError| -> (o: Error) { Error::Io(e) })` rule=optional-R17
//@@ subst `(v as u32).to_be_bytes()` => `u32_to_be_bytes(v as u32)` rule=R14
//@@ spec
    ensures
        final(self).is_array_elem == old(self).is_array_elem,
        r is Ok ==> appended(*old(self), *final(self)),
        r is Ok ==> added(*old(self), *final(self)) =~= enc_char(v, old(self).is_array_elem),      // [C05.char.encoding] [C03.rt.encoder-premise] AMQP 1.0 part 1, 1.6: constructor 0x73 + 4 data octet(s) big-endian; inside an array the constructor once, then data only
//@@ end

}

impl SizeSerializer {
//@@ fn file=serde_amqp/src/size_ser.rs impl=`~ser::Serializer for &'a mut SizeSerializer` name=serialize_i8 as=size_i8
//@@ selfmut
//@@ ret Result<usize, Error>
//@@ spec
    ensures
        final(self).is_array_element == old(self).is_array_element,
        r is Ok && r->Ok_0 == enc_i8(_v, old(self).is_array_element).len(),      // [C20.size.i8] serialized_size == the number of octets the encoder writes, in every position (plain, first / later array element)
//@@ end

//@@ fn file=serde_amqp/src/size_ser.rs impl=`~ser::Serializer for &'a mut SizeSerializer` name=serialize_i16 as=size_i16
//@@ selfmut
//@@ ret Result<usize, Error>
//@@ spec
    ensures
        final(self).is_array_element == old(self).is_array_element,
        r is Ok && r->Ok_0 == enc_i16(_v, old(self).is_array_element).len(),      // [C20.size.i16] serialized_size == the number of octets the encoder writes, in every position (plain, first / later array element)
//@@ end

//@@ fn file=serde_amqp/src/size_ser.rs impl=`~ser::Serializer for &'a mut SizeSerializer` name=serialize_i32 as=size_i32
//@@ selfmut
//@@ ret Result<usize, Error>
//@@ spec
    ensures
        final(self).is_array_element == old(self).is_array_element,
        r is Ok && r->Ok_0 == enc_i32(v, old(self).is_array_element).len(),      // [C20.size.i32] serialized_size == the number of octets the encoder writes, in every position (plain, first / later array element)
//@@ end

//@@ fn file=serde_amqp/src/size_ser.rs impl=`~ser::Serializer for &'a mut SizeSerializer` name=serialize_u8 as=size_u8
//@@ selfmut
//@@ ret Result<usize, Error>
//@@ spec
    ensures
        final(self).is_array_element == old(self).is_array_element,
        r is Ok && r->Ok_0 == enc_u8(_v, old(self).is_array_element).len(),      // [C20.size.u8] serialized_size == the number of octets the encoder writes, in every position (plain, first / later array element)
//@@ end

//@@ fn file=serde_amqp/src/size_ser.rs impl=`~ser::Serializer for &'a mut SizeSerializer` name=serialize_u16 as=size_u16
//@@ selfmut
//@@ ret Result<usize, Error>
//@@ spec
    ensures
        final(self).is_array_element == old(self).is_array_element,
        r is Ok && r->Ok_0 == enc_u16(_v, old(self).is_array_element).len(),      // [C20.size.u16] serialized_size == the number of octets the encoder writes, in every position (plain, first / later array element)
//@@ end

//@@ fn file=serde_amqp/src/size_ser.rs impl=`~ser::Serializer for &'a mut SizeSerializer` name=serialize_u32 as=size_u32
//@@ selfmut
//@@ ret Result<usize, Error>
//@@ spec
    ensures
        final(self).is_array_element == old(self).is_array_element,
        r is Ok && r->Ok_0 == enc_u32(v, old(self).is_array_element).len(),      // [C20.size.u32] serialized_size == the number of octets the encoder writes, in every position (plain, first / later array element)
//@@ end

//@@ fn file=serde_amqp/src/size_ser.rs impl=`~ser::Serializer for &'a mut SizeSerializer` name=serialize_u64 as=size_u64
//@@ selfmut
//@@ ret Result<usize, Error>
//@@ spec
    ensures
        final(self).is_array_element == old(self).is_array_element,
        r is Ok && r->Ok_0 == enc_u64(v, old(self).is_array_element).len(),      // [C20.size.u64] serialized_size == the number of octets the encoder writes, in every position (plain, first / later array element)
//@@ end

//@@ fn file=serde_amqp/src/size_ser.rs impl=`~ser::Serializer for &'a mut SizeSerializer` name=serialize_f32 as=size_f32
//@@ selfmut
//@@ ret Result<usize, Error>
//@@ spec
    ensures
        final(self).is_array_element == old(self).is_array_element,
        r is Ok && r->Ok_0 == enc_f32(_v, old(self).is_array_element).len(),      // [C20.size.float] serialized_size == the number of octets the encoder writes, in every position
//@@ end

//@@ fn file=serde_amqp/src/size_ser.rs impl=`~ser::Serializer for &'a mut SizeSerializer` name=serialize_f64 as=size_f64
//@@ selfmut
//@@ ret Result<usize, Error>
//@@ spec
    ensures
        final(self).is_array_element == old(self).is_array_element,
        r is Ok && r->Ok_0 == enc_f64(_v, old(self).is_array_element).len(),      // [C20.size.double]
//@@ end

//@@ fn file=serde_amqp/src/size_ser.rs impl=`~ser::Serializer for &'a mut SizeSerializer` name=serialize_unit_variant as=size_unit_variant
//@@ selfmut
//@@ subst `self.serialize_u32(variant_index)` => `self.size_u32(variant_index)` rule=R2
//@@ ret Result<usize, Error>
//@@ spec
    ensures
        final(self).is_array_element == old(self).is_array_element,
        r is Ok && r->Ok_0 == enc_u32(variant_index, old(self).is_array_element).len(),      // [C20.size.unit-variant] a unit variant is its index written as a uint (ser.rs serialize_unit_variant: unit SERENTRY): sized as that uint
//@@ end

//@@ fn file=serde_amqp/src/size_ser.rs impl=`~ser::Serializer for &'a mut SizeSerializer` name=serialize_char as=size_char
//@@ selfmut
//@@ ret Result<usize, Error>
//@@ spec
    ensures
        final(self).is_array_element == old(self).is_array_element,
        r is Ok && r->Ok_0 == enc_char(_v, old(self).is_array_element).len(),      // [C20.size.char] serialized_size == the number of octets the encoder writes, in every position (plain, first / later array element)
//@@ end

}

} // verus!
fn main() {}
