//@@ unit ACCLINK
#![feature(allocator_api)]
#![allow(unused_imports, unused_variables, dead_code, unused_mut, unused_parens)]
use vstd::prelude::*;

verus! {

//@@ include wiringpre.rs
//@@ trusted the listener side: allocate_incoming_link (acceptor/session.rs; unit ACCSESS) is a stand-in like session::allocate_link: on Ok, `registered(handle)` is the relay it was given; Link::on_incoming_attach / send_attach / handle_attach_error are stand-ins (units LINKATTACH, LINK, LINKDETACH) that leave the link's wiring fields alone; the computation of the local terminus from the peer's (a closure chain over the dynamic-node callback) is an opaque function of the attach; built as with feature acceptor
plain!(SupportedSenderSettleModes, AttachRest, Terminus);
#[verifier::external_body]
pub struct Handle { _p: u8 }
impl Clone for Handle { #[verifier::external_body] fn clone(&self) -> (r: Self) ensures r == *self { unimplemented!() } }
pub struct InputHandle { pub h: Handle }
impl InputHandle { pub fn from(h: Handle) -> (r: Self) ensures r.h == h { InputHandle { h } } }
pub struct Attach { pub name: String, pub handle: Handle, pub snd_settle_mode: SenderSettleMode, pub rcv_settle_mode: ReceiverSettleMode, pub source: Option<Source>, pub target: Option<TargetT>, pub rest: AttachRest }
//@@ type file=fe2o3-amqp/src/acceptor/mod.rs kind=enum name=SupportedReceiverSettleModes
//@@ end
impl SupportedSenderSettleModes {
    pub uninterp spec fn spec_supports(&self, m: SenderSettleMode) -> bool;
    #[verifier::external_body]
    pub fn supports(&self, mode: &SenderSettleMode) -> (r: bool) ensures r == self.spec_supports(*mode) { unimplemented!() }
}
impl SupportedReceiverSettleModes {
    pub open spec fn spec_supports(&self, m: ReceiverSettleMode) -> bool {
        match m { ReceiverSettleMode::First => *self is First || *self is Both, ReceiverSettleMode::Second => *self is Second || *self is Both }
    }
//@@ fn file=fe2o3-amqp/src/acceptor/mod.rs impl=`impl SupportedReceiverSettleModes` name=supports
//@@ spec
    ensures r == self.spec_supports(*mode),        // [C02.listener.supported-settle-modes] `first` is supported by First / Both, `second` by Second / Both
//@@ end
}
pub struct SharedLinkAcceptorFields {
    pub max_message_size: Option<Ulong>, pub properties: Option<Fields>, pub buffer_size: usize, pub offered_capabilities: Option<Caps>, pub desired_capabilities: Option<Caps>,
    pub supported_snd_settle_modes: SupportedSenderSettleModes, pub fallback_snd_settle_mode: SenderSettleMode,
    pub supported_rcv_settle_modes: SupportedReceiverSettleModes, pub fallback_rcv_settle_mode: ReceiverSettleMode,
}
pub mod acc_session {
    use super::*;
    #[verifier::external_body]
    pub fn allocate_incoming_link(control: &SessCtlTx, link_name: String, link_relay: LinkRelay<()>, input_handle: InputHandle, stop: &StopArc) -> (r: Result<OutputHandle, AllocLinkError>)
        ensures r is Ok ==> registered(r->Ok_0) == link_relay,
    { unimplemented!() }
}
pub enum AttachErr { CoordinatorIsNotImplemented, Other(u8) }
impl LinkR {
    #[verifier::external_body]
    pub fn on_incoming_attach(&mut self, remote_attach: Attach) -> (r: Result<(), ReceiverAttachError>)
        ensures final(self).flow_state == old(self).flow_state, final(self).unsettled == old(self).unsettled, final(self).session_stop_reason == old(self).session_stop_reason,
            final(self).rcv_settle_mode == old(self).rcv_settle_mode, final(self).output_handle == old(self).output_handle,
    { unimplemented!() }
    #[verifier::external_body]
    pub fn send_attach(&mut self, writer: &OutTx, session: &SessCtlTx, is_reattaching: bool) -> (r: Result<(), ReceiverAttachError>)
        ensures final(self).flow_state == old(self).flow_state, final(self).unsettled == old(self).unsettled, final(self).session_stop_reason == old(self).session_stop_reason,
            final(self).rcv_settle_mode == old(self).rcv_settle_mode, final(self).output_handle == old(self).output_handle,
    { unimplemented!() }
}
impl LinkS {
    #[verifier::external_body]
    pub fn on_incoming_attach(&mut self, remote_attach: Attach) -> (r: Result<(), SenderAttachError>)
        ensures final(self).flow_state == old(self).flow_state, final(self).unsettled == old(self).unsettled, final(self).session_stop_reason == old(self).session_stop_reason, final(self).output_handle == old(self).output_handle,
    { unimplemented!() }
    #[verifier::external_body]
    pub fn send_attach(&mut self, writer: &OutTx, session: &SessCtlTx, is_reattaching: bool) -> (r: Result<(), SenderAttachError>)
        ensures final(self).flow_state == old(self).flow_state, final(self).unsettled == old(self).unsettled, final(self).session_stop_reason == old(self).session_stop_reason, final(self).output_handle == old(self).output_handle,
    { unimplemented!() }
}
/// the local target computed from the peer's attach (dynamic-node callback, capabilities); `err` is set when the target is a coordinator
#[verifier::external_body]
pub fn local_target_of(remote_attach: &Attach, err: &mut Option<ReceiverAttachError>) -> (r: Option<TargetT>) { unimplemented!() }
#[verifier::external_body]
pub fn local_source_of(remote_attach: &Attach) -> (r: Option<Source>) { unimplemented!() }

pub struct LocalReceiverLinkAcceptor { pub credit_mode: CreditMode, pub auto_accept: bool, pub verify_incoming_source: bool, pub verify_incoming_target: bool }
impl LocalReceiverLinkAcceptor {
//@@ fn file=fe2o3-amqp/src/acceptor/local_receiver_link.rs impl=`~impl<C,T,F>LocalReceiverLinkAcceptor<C,T,F>where` name=accept_incoming_attach_inner
//@@ qmark
//@@ orsplit
//@@ generics
//@@ nowhere
//@@ param control : SessCtlTx
//@@ param outgoing : OutTx
//@@ param session_stop_reason : StopArc
//@@ ret Result<ReceiverInner, ReceiverAttachError>
//@@ subst `std::sync::Arc::new(std::sync::atomic::AtomicU32::new(0))` => `new_processed_counter()` rule=R8b
//@@ subst `Arc::new(` => `ArcNew::arc_new(` rule=R8b
//@@ subst `super::session::allocate_incoming_link(` => `acc_session::allocate_incoming_link(` rule=R2
//@@ subst `let local_target = __E1;` => `let local_target = local_target_of(&remote_attach, &mut err);` rule=R19
//@@ subst `ReceiverLink::<T> {` => `LinkR {` rule=R7
//@@ subst `role: PhantomData,` => `role: PhantomData {},` rule=R11
//@@ spec
    ensures
        r is Ok ==> r->Ok_0.link.output_handle is Some && registered(r->Ok_0.link.output_handle->Some_0) is Receiver,
        r is Ok ==> registered(r->Ok_0.link.output_handle->Some_0)->Receiver_tx.id() == r->Ok_0.incoming.id(),                       // [C11.wiring.relay-feeds-this-links-queue] [C01.wiring.relay-feeds-this-links-queue] (listener)
        r is Ok ==> registered(r->Ok_0.link.output_handle->Some_0)->Receiver_unsettled.id() == r->Ok_0.link.unsettled.id(),          // [C02.wiring.relay-and-link-share-the-unsettled-map] (listener)
        r is Ok ==> registered(r->Ok_0.link.output_handle->Some_0)->Receiver_flow_state.id() == r->Ok_0.link.flow_state.id(),        // [C09.wiring.relay-and-link-share-the-flow-state] (listener)
        r is Ok ==> registered(r->Ok_0.link.output_handle->Some_0)->Receiver_receiver_settle_mode == r->Ok_0.link.rcv_settle_mode && !registered(r->Ok_0.link.output_handle->Some_0)->Receiver_more,   // [C02.wiring.relay-knows-the-links-settle-mode] (listener) the relay is told the mode the link NEGOTIATED (the peer's wish if supported, the fallback otherwise): with a different one the relay registers deliveries the link settles at once, or fails to register deliveries whose settling disposition the link waits for
        r is Ok ==> r->Ok_0.link.rcv_settle_mode == (if shared.supported_rcv_settle_modes.spec_supports(remote_attach.rcv_settle_mode) { remote_attach.rcv_settle_mode } else { shared.fallback_rcv_settle_mode }),   // [C02.listener.settle-mode-negotiated] the receiver respects the sender's desired rcv-settle-mode when it supports it, and falls back to the configured mode otherwise
        r is Ok ==> r->Ok_0.link.session_stop_reason.id() == session_stop_reason.id(),                                               // [C14.wiring.link-reads-the-sessions-stop-reason] (listener)
        r is Ok ==> r->Ok_0.outgoing.id() == outgoing.id() && r->Ok_0.session.id() == control.id(),                                 // [C13.wiring.link-writes-to-its-session] (listener)
        r is Ok && self.credit_mode is Auto ==> r->Ok_0.outgoing.granted() == outgoing.granted().push(self.credit_mode->Auto_0),   // [C09.attach.auto-mode-issues-its-credit] (listener)
        r is Ok && self.credit_mode is Manual ==> r->Ok_0.outgoing.granted() == outgoing.granted(),
        r is Ok ==> r->Ok_0.credit_mode == self.credit_mode && r->Ok_0.auto_accept == self.auto_accept && r->Ok_0.incomplete_transfer is None,
        r is Ok ==> r->Ok_0.link.flow_state.init().link_credit == 0 && !r->Ok_0.link.flow_state.init().drain && r->Ok_0.link.flow_state.init().available == 0,       // [C09.wiring.initial-flow-state] (listener) a receiving link the listener accepts starts with zero credit issued and the drain flag clear: whatever credit the sender sees comes from a flow this end wrote
//@@ end
}

pub struct SessionHandleA { pub control: SessCtlTx, pub outgoing: OutTx, pub stop: StopArc }
impl SessionHandleA { pub fn session_stop_reason(&self) -> (r: &StopArc) ensures *r == self.stop { &self.stop } }
pub struct Sender { pub inner: SenderInner }
pub struct LocalSenderLinkAcceptor { pub initial_delivery_count: SequenceNo, pub verify_incoming_source: bool, pub verify_incoming_target: bool }
impl LocalSenderLinkAcceptor {
//@@ fn file=fe2o3-amqp/src/acceptor/local_sender_link.rs impl=`~impl<F>LocalSenderLinkAcceptor<Symbol,F>where` name=accept_incoming_attach
//@@ qmark
//@@ generics
//@@ nowhere
//@@ param session : &mut SessionHandleA
//@@ ret Result<Sender, SenderAttachError>
//@@ subst `Arc::new(` => `ArcNew::arc_new(` rule=R8b
//@@ subst `super::session::allocate_incoming_link(` => `acc_session::allocate_incoming_link(` rule=R2
//@@ subst `mpsc::channel(` => `mpsc::channel::<LinkIncomingItem>(` rule=optional-R5
//@@ subst `let local_source = __E1;` => `let local_source = local_source_of(&remote_attach);` rule=R19
//@@ subst `SenderLink::<Target> {` => `LinkS {` rule=R7
//@@ subst `role: PhantomData,` => `role: PhantomData {},` rule=R11
//@@ subst `match attach_error { __E1 }` => `{ let __fatal = sender_attach_error_is_fatal(&attach_error); if __fatal { return Err(link.handle_attach_error(attach_error, &outgoing, &mut incoming_rx, &session.control)); } }` rule=R19
//@@ spec
    ensures
        r is Ok ==> r->Ok_0.inner.link.output_handle is Some && registered(r->Ok_0.inner.link.output_handle->Some_0) is Sender,
        r is Ok ==> registered(r->Ok_0.inner.link.output_handle->Some_0)->Sender_tx.id() == r->Ok_0.inner.incoming.id(),                          // [C11.wiring.relay-feeds-this-links-queue] [C01.wiring.relay-feeds-this-links-queue] (listener)
        r is Ok ==> registered(r->Ok_0.inner.link.output_handle->Some_0)->Sender_unsettled.id() == r->Ok_0.inner.link.unsettled.id(),             // [C02.wiring.relay-and-link-share-the-unsettled-map] (listener)
        r is Ok ==> registered(r->Ok_0.inner.link.output_handle->Some_0)->Sender_flow_state.state.id() == r->Ok_0.inner.link.flow_state.state.id(),      // [C08.wiring.relay-and-link-share-the-flow-state] (listener)
        r is Ok ==> registered(r->Ok_0.inner.link.output_handle->Some_0)->Sender_flow_state.notifier.id() == r->Ok_0.inner.link.flow_state.notifier.id(),   // [C08.wiring.grant-wakes-this-links-waiter] (listener)
        r is Ok ==> registered(r->Ok_0.inner.link.output_handle->Some_0)->Sender_receiver_settle_mode == remote_attach.rcv_settle_mode,            // [C02.wiring.sender-relay-knows-the-receivers-settle-mode] (listener) the relay of a sending link echoes a settling disposition exactly when the RECEIVER settles second: it is given the mode the peer's attach announced
        r is Ok ==> r->Ok_0.inner.link.flow_state.state.init().link_credit == 0 && r->Ok_0.inner.link.flow_state.state.init().delivery_count == self.initial_delivery_count
            && r->Ok_0.inner.link.flow_state.state.init().initial_delivery_count == self.initial_delivery_count && !r->Ok_0.inner.link.flow_state.state.init().drain,                                  // [C08.wiring.initial-flow-state] (listener) no credit until the receiver grants some
        r is Ok ==> r->Ok_0.inner.link.session_stop_reason.id() == old(session).stop.id(),                                                        // [C14.wiring.link-reads-the-sessions-stop-reason] (listener)
        r is Ok ==> r->Ok_0.inner.outgoing.id() == old(session).outgoing.id() && r->Ok_0.inner.session.id() == old(session).control.id(),        // [C13.wiring.link-writes-to-its-session] (listener)
//@@ end
}
/// `match attach_error { SndSettleModeNotSupported => {}, _ => return Err(..) }`: which attach errors end the attach
#[verifier::external_body]
pub fn sender_attach_error_is_fatal(e: &SenderAttachError) -> (r: bool) { unimplemented!() }

// ---------------------------------------------------------------------------------------------------------------
// LinkAcceptor (acceptor/link.rs): which local endpoint answers a peer's attach, and what `accept` reports on a stopped session
pub enum Role { Sender, Receiver }
pub struct AttachR { pub role: Role, pub rest: Attach }
pub struct Receiver { pub inner: ReceiverInner }
pub enum LinkEndpoint { Sender(Sender), Receiver(Receiver) }
pub enum SessionStopReason { Ended, Other(u8) }
impl Clone for SessionStopReason { #[verifier::external_body] fn clone(&self) -> (r: Self) ensures r == *self { unimplemented!() } }
pub enum AcceptorAttachError { SessionStopped(SessionStopReason), Sender(SenderAttachError), Receiver(ReceiverAttachError) }
#[verifier::external_body]
pub fn acc_err_from_receiver(e: ReceiverAttachError) -> (r: AcceptorAttachError) { unimplemented!() }
#[verifier::external_body]
pub fn acc_err_from_sender(e: SenderAttachError) -> (r: AcceptorAttachError) { unimplemented!() }
pub struct RecvAcc { pub g: Ghost<int> }
pub struct SendAcc { pub g: Ghost<int> }
impl RecvAcc {
    #[verifier::external_body]
    pub fn accept_incoming_attach(&self, shared: &SharedLinkAcceptorFields, remote_attach: AttachR, session: &mut ListenerSessionH) -> (r: Result<Receiver, ReceiverAttachError>)
        ensures final(session).stop == old(session).stop, final(session).engine_gone == old(session).engine_gone, final(session).session_stop_reason == old(session).session_stop_reason,
    { unimplemented!() }
}
impl SendAcc {
    #[verifier::external_body]
    pub fn accept_incoming_attach(&self, shared: &SharedLinkAcceptorFields, remote_attach: AttachR, session: &mut ListenerSessionH) -> (r: Result<Sender, SenderAttachError>)
        ensures final(session).stop == old(session).stop, final(session).engine_gone == old(session).engine_gone, final(session).session_stop_reason == old(session).session_stop_reason,
    { unimplemented!() }
}
pub struct StopCellA { pub v: Ghost<Option<SessionStopReason>> }
impl StopCellA {
    #[verifier::external_body]
    pub fn get(&self) -> (r: Option<&SessionStopReason>) ensures (match r { Some(x) => self.v@ == Some(*x), None => self.v@ is None }) { unimplemented!() }
}
pub struct ListenerSessionH { pub session_stop_reason: StopCellA, pub stop: Ghost<int>, pub pending: Ghost<Seq<AttachR>>, pub engine_gone: Ghost<bool> }
impl ListenerSessionH {
    /// `session.next_incoming_attach().await`: the next attach the session engine handed over, or None once the engine has stopped
    #[verifier::external_body]
    pub fn next_incoming_attach(&mut self) -> (r: Option<AttachR>)
        ensures final(self).session_stop_reason == old(self).session_stop_reason, final(self).stop == old(self).stop, final(self).engine_gone@ == (r is None),
    { unimplemented!() }
}
pub struct LinkAcceptor { pub shared: SharedLinkAcceptorFields, pub local_receiver_acceptor: RecvAcc, pub local_sender_acceptor: SendAcc }
impl LinkAcceptor {
//@@ fn file=fe2o3-amqp/src/acceptor/link.rs impl=`~impl<FS,FT>LinkAcceptor<FS,FT>where` name=accept_incoming_attach as=accept_incoming_attach_dispatch
//@@ generics
//@@ param remote_attach : AttachR
//@@ param session : &mut ListenerSessionH
//@@ subst `.map(LinkEndpoint::Receiver) .map_err(Into::into)` => `.map(|v: Receiver| -> (o: LinkEndpoint) ensures o == LinkEndpoint::Receiver(v) { LinkEndpoint::Receiver(v) }).map_err(|e: ReceiverAttachError| -> (o: AcceptorAttachError) { acc_err_from_receiver(e) })` rule=R17,R18
//@@ subst `.map(LinkEndpoint::Sender) .map_err(Into::into)` => `.map(|v: Sender| -> (o: LinkEndpoint) ensures o == LinkEndpoint::Sender(v) { LinkEndpoint::Sender(v) }).map_err(|e: SenderAttachError| -> (o: AcceptorAttachError) { acc_err_from_sender(e) })` rule=R17,R18
//@@ spec
    ensures
        r is Ok && remote_attach.role is Sender ==> r->Ok_0 is Receiver,       // [C11.listener.role-complement] [C13.listener.role-complement] a peer that attaches as SENDER is answered by a local receiving link, a peer that attaches as receiver by a local sending link: the answering attach carries the complementary role under the same link name
        r is Ok && remote_attach.role is Receiver ==> r->Ok_0 is Sender,
        final(session).engine_gone == old(session).engine_gone, final(session).session_stop_reason == old(session).session_stop_reason,
//@@ end

//@@ fn file=fe2o3-amqp/src/acceptor/link.rs impl=`~impl<FS,FT>LinkAcceptor<FS,FT>where` name=accept
//@@ param session : &mut ListenerSessionH
//@@ subst `self.accept_incoming_attach(remote_attach, session)` => `self.accept_incoming_attach_dispatch(remote_attach, session)` rule=R2
//@@ spec
    ensures
        final(session).engine_gone@ ==> r == Err::<LinkEndpoint, AcceptorAttachError>(AcceptorAttachError::SessionStopped(match old(session).session_stop_reason.v@ { Some(x) => x, None => SessionStopReason::Ended })),   // [C14.accept.stopped-session-says-why] an accept on a session that has stopped fails with SessionStopped carrying the published reason (the peer's End error, the connection's fate); Ended only if none was recorded
//@@ end
}

} // verus!
fn main() {}
