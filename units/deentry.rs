//@@ unit DEENTRY
#![feature(allocator_api)]
#![allow(unused_imports, unused_variables, dead_code, unused_mut, unused_parens)]
use vstd::prelude::*;

verus! {

//@@ gsubst `.try_into()` => `.try_code()` rule=R16
//@@ gsubst `|| Error::unexpected_eof(__E1)` => `|| -> (o: Error) { Error::unexpected_eof(__E1) }` rule=R18
//@@ trusted the parsers (parse_bool .. parse_unit, parse_described_identifier) and the entry points for variable-width and compound values (deserialize_string / _str / _bytes / _byte_buf / _tuple / _map: all under contract in unit READERS) are stand-ins here: a parser RECORDS the value it returns, an entry point records that it was called and with which deserializer state (markers, struct encoding, enum type, element constructor, unread input); the marker clauses of the entry points are restated from READERS ([C03.marker.one-shot] there), their marker PRECONDITIONS -- which READERS had to assume -- are obligations of the call sites in this unit
//@@ trusted the visitor (the decoded type's serde Visitor impl: derive-macro output or hand-written) is a stand-in: handed a scalar it fails or returns a value that remembers what it was given; handed the deserializer (visit_some, visit_newtype_struct, visit_seq, visit_map, visit_enum) it records the hand-over with the deserializer's state at that moment and may then do anything to the deserializer EXCEPT leave a type marker behind where there was none (it can reach the deserializer only through the entry points, each of which keeps `non_native_type is None` between values: the induction over the nesting depth is not mechanised)
//@@ trusted the reader is reduced to its unread octets (unit READERS has the Read contract for both readers); `&'a mut Deserializer<R>` fields of the access structs are kept as they are (Verus' prophecy encoding of `&mut`)

pub struct IoError { pub k: u8 }
pub enum Error { Io(IoError), InvalidFormatCode, InvalidValue, InvalidLength, Other }
impl Error {
    #[verifier::external_body]
    pub fn unexpected_eof(msg: &str) -> (r: Error) ensures r is Io { unimplemented!() }
}
pub trait ErrInto<T>: Sized { spec fn conv(self) -> T; fn err_into(self) -> (r: T) ensures r == self.conv(); }
impl ErrInto<Error> for IoError { open spec fn conv(self) -> Error { Error::Io(self) } fn err_into(self) -> (r: Error) { Error::Io(self) } }
impl ErrInto<Error> for Error { open spec fn conv(self) -> Error { self } fn err_into(self) -> (r: Error) { let e = self; assert(e == <Error as ErrInto<Error>>::conv(self)); e } }

//@@ type file=serde_amqp/src/format_code.rs kind=enum name=EncodingCodes keeprepr clone
//@@ end
impl Copy for EncodingCodes {}
/// the constructors this unit's clauses speak about (AMQP 1.0 part 1, 1.6): null, described, the uint / ulong / string / symbol / list / map width variants
pub open spec fn named_code(c: u8) -> bool {
    c == 0x40 || c == 0x00 || c == 0x70 || c == 0x52 || c == 0x43 || c == 0x80 || c == 0x53 || c == 0x44 || c == 0xa1 || c == 0xb1 || c == 0xa3 || c == 0xb3
        || c == 0x45 || c == 0xc0 || c == 0xd0 || c == 0xc1 || c == 0xd1
}
impl EncodingCodes {
//@@ fn file=serde_amqp/src/format_code.rs impl=`impl TryFrom<u8> for EncodingCodes` name=try_from as=try_from_u8
//@@ ret Result<EncodingCodes, Error>
//@@ spec
    ensures r is Ok ==> r->Ok_0 as u8 == value,
        named_code(value) ==> r is Ok,
//@@ end
}
pub trait TryCode { fn try_code(self) -> (r: Result<EncodingCodes, Error>) ensures r is Ok ==> r->Ok_0 as u8 == self.byte(), named_code(self.byte()) ==> r is Ok; spec fn byte(self) -> u8; }
impl TryCode for u8 { open spec fn byte(self) -> u8 { self } fn try_code(self) -> (r: Result<EncodingCodes, Error>) { EncodingCodes::try_from_u8(self) } }

//@@ type file=serde_amqp/src/util.rs kind=enum name=NonNativeType
//@@ end
//@@ type file=serde_amqp/src/util.rs kind=enum name=SequenceType
//@@ end
//@@ type file=serde_amqp/src/util.rs kind=enum name=EnumType clone
//@@ end
//@@ type file=serde_amqp/src/util.rs kind=enum name=StructEncoding clone
//@@ end

//@@ strconsts file=serde_amqp/src/constants.rs names=DESCRIBED_BASIC,DESCRIBED_LIST,DESCRIBED_MAP,DESCRIPTOR,UNTAGGED_ENUM,VALUE,ARRAY,DECIMAL32,DECIMAL64,DECIMAL128,SYMBOL,SYMBOL_REF,TIMESTAMP,UUID,TRANSPARENT_VEC,LAZY_VALUE lemma=lemma_names_distinct label=`[C03.constants.newtype-names-distinct] [C05.constants.newtype-names-distinct] the names by which the AMQP-specific types announce themselves to the deserializer are pairwise different strings: no type is taken for another`

pub open spec fn sp_be32(b: Seq<u8>) -> u32 { ((b[0] as u32) << 24 | (b[1] as u32) << 16 | (b[2] as u32) << 8 | (b[3] as u32)) as u32 }
#[verifier::external_body]
pub fn from_be32(b: [u8; 4]) -> (r: u32) ensures r == sp_be32(b@) { u32::from_be_bytes(b) }

/// `reliable`: the source never fails while it still has the octets asked for (a slice; a stream without I/O errors) -- READERS' Read::reliable
pub struct ReaderS { pub rest: Ghost<Seq<u8>>, pub reliable: Ghost<bool> }
impl ReaderS {
    /// Read::peek (unit READERS): the next octet, if any, without consuming it
    #[verifier::external_body]
    pub fn peek(&mut self) -> (r: Option<u8>)
        ensures *final(self) == *old(self), r is Some ==> old(self).rest@.len() > 0 && r->Some_0 == old(self).rest@[0],
            old(self).reliable@ && old(self).rest@.len() > 0 ==> r is Some,
    { unimplemented!() }
    /// Read::next: one octet consumed, or the end of the input reported
    #[verifier::external_body]
    pub fn next(&mut self) -> (r: Result<Option<u8>, IoError>)
        ensures r is Ok && r->Ok_0 is Some ==> old(self).rest@.len() > 0 && r->Ok_0->Some_0 == old(self).rest@[0] && final(self).rest@ == old(self).rest@.skip(1),
            r is Ok && r->Ok_0 is None ==> final(self).rest == old(self).rest,
            final(self).reliable == old(self).reliable, old(self).reliable@ && old(self).rest@.len() > 0 ==> r is Ok && r->Ok_0 is Some,
    { unimplemented!() }
    /// Read::read_const_bytes::<4>
    #[verifier::external_body]
    pub fn read_const_bytes(&mut self) -> (r: Result<[u8; 4], IoError>)
        ensures r is Ok ==> old(self).rest@.len() >= 4 && r->Ok_0@ == old(self).rest@.subrange(0, 4) && final(self).rest@ == old(self).rest@.skip(4),
            final(self).reliable == old(self).reliable, old(self).reliable@ && old(self).rest@.len() >= 4 ==> r is Ok,
    { unimplemented!() }
}

/// what a visitor is shown
pub enum VisCall { Bool(bool), I8(i8), I16(i16), I32(i32), I64(i64), U8(u8), U16(u16), U32(u32), U64(u64), F32(f32), F64(f64), Char(char), Unit, Nothing, Other }
pub struct ValueS { pub via: Ghost<VisCall> }
/// the deserializer's state at a call or hand-over
pub struct Snap { pub enc: StructEncoding, pub et: EnumType, pub st: Option<SequenceType>, pub marker: Option<NonNativeType>, pub elem: Option<EncodingCodes>, pub rest: Seq<u8> }
pub enum Ent { String, Str, Bytes, ByteBuf, Tuple(int), Map, DescribedIdent }
pub enum Hand { Some_, Newtype, SeqDescribed { field_count: int, counter: int }, MapDescribed { field_count: int, counter: int }, SeqTransparent, Enum, Seed }
/// `ParsedTimestamp`: the value came from parse_timestamp (constructor 0x83), not from parse_i64
pub enum Call { Parsed(VisCall), ParsedTimestamp(i64), Entry(Ent, Snap), Handed(Hand, Snap) }

pub struct Deserializer {
    pub reader: ReaderS,
    pub non_native_type: Option<NonNativeType>,
    pub seq_type: Option<SequenceType>,
    pub enum_type: EnumType,
    pub struct_encoding: StructEncoding,
    pub elem_format_code: Option<EncodingCodes>,
    pub called: Ghost<Seq<Call>>,
}
pub open spec fn snap(de: Deserializer) -> Snap {
    Snap { enc: de.struct_encoding, et: de.enum_type, st: de.seq_type, marker: de.non_native_type, elem: de.elem_format_code, rest: de.reader.rest@ }
}
/// the constructor of the value about to be decoded: the array's element constructor inside an array, else the next octet
pub open spec fn eff_code(de: Deserializer) -> Option<u8> {
    match de.elem_format_code { Some(c) => Some(c as u8), None => if de.reader.rest@.len() > 0 { Some(de.reader.rest@[0]) } else { None } }
}
/// everything but the call log and the reader
pub open spec fn same_modes(a: Deserializer, b: Deserializer) -> bool {
    a.non_native_type == b.non_native_type && a.seq_type == b.seq_type && a.enum_type == b.enum_type && a.struct_encoding == b.struct_encoding && a.elem_format_code == b.elem_format_code
}

macro_rules! parser {
    ($($f:ident : $t:ty => $v:ident),*) => { verus!{ impl Deserializer { $(
        /// the parser of this type (under contract in unit READERS): records the value it decoded
        #[verifier::external_body]
        pub fn $f(&mut self) -> (r: Result<$t, Error>)
            ensures same_modes(*final(self), *old(self)),
                r is Ok ==> final(self).called@ == old(self).called@.push(Call::Parsed(VisCall::$v(r->Ok_0))),
                r is Err ==> final(self).called@ == old(self).called@,
        { unimplemented!() }
    )* } } }
}
parser!(parse_bool: bool => Bool, parse_i8: i8 => I8, parse_i16: i16 => I16, parse_i32: i32 => I32, parse_i64: i64 => I64,
        parse_u8: u8 => U8, parse_u16: u16 => U16, parse_u32: u32 => U32, parse_u64: u64 => U64, parse_f32: f32 => F32, parse_f64: f64 => F64, parse_char: char => Char);
impl Deserializer {
    /// parse_timestamp (unit READERS): constructor 0x83 and eight octets
    #[verifier::external_body]
    pub fn parse_timestamp(&mut self) -> (r: Result<i64, Error>)
        ensures same_modes(*final(self), *old(self)),
            r is Ok ==> final(self).called@ == old(self).called@.push(Call::ParsedTimestamp(r->Ok_0)),
            r is Err ==> final(self).called@ == old(self).called@,
    { unimplemented!() }
    /// parse_unit (unit READERS): Ok iff the value is a null; the null constructor is consumed
    #[verifier::external_body]
    pub fn parse_unit(&mut self) -> (r: Result<(), Error>)
        ensures same_modes(*final(self), *old(self)),
            r is Ok ==> final(self).called@ == old(self).called@.push(Call::Parsed(VisCall::Unit)),
            r is Err ==> final(self).called@ == old(self).called@,
    { unimplemented!() }
    /// get_elem_code_or_peek_byte (under contract in unit ANYDISPATCH)
    #[verifier::external_body]
    pub fn get_elem_code_or_peek_byte(&mut self) -> (r: Option<Result<u8, Error>>)
        ensures *final(self) == *old(self),
            (match eff_code(*old(self)) { Some(c) => r == Some(Ok::<u8, Error>(c)), None => r is None }),
    { unimplemented!() }
    /// get_elem_code_or_read_format_code (under contract in unit READERS): inside an array the element constructor (nothing consumed), else one octet consumed
    #[verifier::external_body]
    pub fn get_elem_code_or_read_format_code(&mut self) -> (r: Option<Result<EncodingCodes, Error>>)
        ensures same_modes(*final(self), *old(self)), final(self).called == old(self).called,
            old(self).elem_format_code is Some ==> r == Some(Ok::<EncodingCodes, Error>(old(self).elem_format_code->Some_0)) && final(self).reader == old(self).reader,
            old(self).elem_format_code is None && r is Some && r->Some_0 is Ok ==> old(self).reader.rest@.len() > 0 && r->Some_0->Ok_0 as u8 == old(self).reader.rest@[0] && final(self).reader.rest@ == old(self).reader.rest@.skip(1),
            old(self).elem_format_code is None && r is None ==> final(self).reader == old(self).reader,
            final(self).reader.reliable == old(self).reader.reliable,
            old(self).elem_format_code is None && old(self).reader.reliable@ && old(self).reader.rest@.len() > 0 ==> r is Some && (named_code(old(self).reader.rest@[0]) ==> r->Some_0 is Ok),
    { unimplemented!() }
}
macro_rules! entry {
    ($($f:ident => $e:expr ; $pre:expr ; $post:expr),*) => { verus!{ impl Deserializer { $(
        #[verifier::external_body]
        pub fn $f(&mut self, visitor: VisS) -> (r: Result<ValueS, Error>)
            requires $pre(old(self).non_native_type),
            ensures final(self).called@ == old(self).called@.push(Call::Entry($e, snap(*old(self)))),
                $post(old(self).non_native_type, final(self).non_native_type),
        { unimplemented!() }
    )* } } }
}
pub open spec fn pre_any(m: Option<NonNativeType>) -> bool { true }
/// deserialize_string, READERS [C03.marker.one-shot]
pub open spec fn post_string(m0: Option<NonNativeType>, m1: Option<NonNativeType>) -> bool { (m0 is None || m0->Some_0 is Symbol) ==> m1 is None }
pub open spec fn post_str(m0: Option<NonNativeType>, m1: Option<NonNativeType>) -> bool { (m0 is None || m0->Some_0 is SymbolRef) ==> m1 is None }
/// deserialize_bytes: READERS assumes that the LazyValue marker never gets here
pub open spec fn pre_bytes(m: Option<NonNativeType>) -> bool { !(m is Some && m->Some_0 is LazyValue) }       // [C04.marker.no-unreachable-panic] call-site obligation: no caller in this unit hands deserialize_bytes the LazyValue marker (its `unreachable!` arm)
pub open spec fn post_bytes(m0: Option<NonNativeType>, m1: Option<NonNativeType>) -> bool {
    (m0 is None || m0->Some_0 is Dec32 || m0->Some_0 is Dec64 || m0->Some_0 is Dec128 || m0->Some_0 is Uuid) ==> m1 is None
}
/// deserialize_byte_buf: READERS assumes that only `None` or the LazyValue marker get here
pub open spec fn pre_byte_buf(m: Option<NonNativeType>) -> bool { m is None || m->Some_0 is LazyValue }       // [C04.marker.no-unreachable-panic] call-site obligation for deserialize_byte_buf's `unreachable!` arm
pub open spec fn post_cleared(m0: Option<NonNativeType>, m1: Option<NonNativeType>) -> bool { m1 is None }
pub open spec fn post_kept_none(m0: Option<NonNativeType>, m1: Option<NonNativeType>) -> bool { m0 is None ==> m1 is None }
entry!(deserialize_string => Ent::String ; pre_any ; post_string, deserialize_str => Ent::Str ; pre_any ; post_str,
       deserialize_bytes => Ent::Bytes ; pre_bytes ; post_bytes, deserialize_byte_buf => Ent::ByteBuf ; pre_byte_buf ; post_cleared,
       deserialize_map => Ent::Map ; pre_any ; post_kept_none, parse_described_identifier => Ent::DescribedIdent ; pre_any ; post_kept_none);
impl Deserializer {
    #[verifier::external_body]
    pub fn deserialize_tuple(&mut self, len: usize, visitor: VisS) -> (r: Result<ValueS, Error>)
        ensures final(self).called@ == old(self).called@.push(Call::Entry(Ent::Tuple(len as int), snap(*old(self)))),
            old(self).non_native_type is None ==> final(self).non_native_type is None,
    { unimplemented!() }
}

/// a serde DeserializeSeed: handed the deserializer, it records the hand-over (as the visitor does) and may then decode anything through the entry points
pub struct SeedS { pub p: u8 }
impl SeedS {
    #[verifier::external_body]
    pub fn deserialize(self, de: &mut Deserializer) -> (r: Result<ValueS, Error>)
        ensures final(de).called@ == old(de).called@.push(Call::Handed(Hand::Seed, snap(*old(de)))), old(de).non_native_type is None ==> final(de).non_native_type is None,
    { unimplemented!() }
}
pub struct VisS { pub p: u8 }
macro_rules! visit {
    ($($f:ident : $t:ty => $v:ident),*) => { verus!{ impl VisS { $(
        #[verifier::external_body]
        pub fn $f(self, v: $t) -> (r: Result<ValueS, Error>) ensures r is Ok ==> r->Ok_0.via@ == VisCall::$v(v) { unimplemented!() }
    )* } } }
}
visit!(visit_bool: bool => Bool, visit_i8: i8 => I8, visit_i16: i16 => I16, visit_i32: i32 => I32, visit_i64: i64 => I64, visit_u8: u8 => U8, visit_u16: u16 => U16,
       visit_u32: u32 => U32, visit_u64: u64 => U64, visit_f32: f32 => F32, visit_f64: f64 => F64, visit_char: char => Char);
impl VisS {
    #[verifier::external_body]
    pub fn visit_unit(self) -> (r: Result<ValueS, Error>) ensures r is Ok ==> r->Ok_0.via@ == VisCall::Unit { unimplemented!() }
    #[verifier::external_body]
    pub fn visit_none(self) -> (r: Result<ValueS, Error>) ensures r is Ok ==> r->Ok_0.via@ == VisCall::Nothing { unimplemented!() }
    #[verifier::external_body]
    pub fn visit_some(self, de: &mut Deserializer) -> (r: Result<ValueS, Error>)
        ensures final(de).called@ == old(de).called@.push(Call::Handed(Hand::Some_, snap(*old(de)))), old(de).non_native_type is None ==> final(de).non_native_type is None,
    { unimplemented!() }
    #[verifier::external_body]
    pub fn visit_newtype_struct(self, de: &mut Deserializer) -> (r: Result<ValueS, Error>)
        ensures final(de).called@ == old(de).called@.push(Call::Handed(Hand::Newtype, snap(*old(de)))), old(de).non_native_type is None ==> final(de).non_native_type is None,
    { unimplemented!() }
}

// ================================================================ the access objects the visitor is handed (de.rs)
#[verifier::external_body]
pub struct PeekTypeCode { _p: u8 }
//@@ type file=serde_amqp/src/de.rs kind=struct name=DescribedAccess
//@@ subst `DescribedAccess<'a, R>` => `DescribedAccess<'a>` rule=R7
//@@ subst `Deserializer<R>` => `Deserializer` rule=R7
//@@ end
//@@ type file=serde_amqp/src/de.rs kind=struct name=TransparentVecAccess
//@@ subst `TransparentVecAccess<'a, R>` => `TransparentVecAccess<'a>` rule=R7
//@@ subst `Deserializer<R>` => `Deserializer` rule=R7
//@@ end
//@@ type file=serde_amqp/src/de.rs kind=struct name=VariantAccess
//@@ subst `VariantAccess<'a, R>` => `VariantAccess<'a>` rule=R7
//@@ subst `Deserializer<R>` => `Deserializer` rule=R7
//@@ end

impl<'a> DescribedAccess<'a> {
//@@ fn file=serde_amqp/src/de.rs impl=`impl<'a, 'de, R: Read<'de>> DescribedAccess<'a, R>` name=list
//@@ subst `Deserializer<R>` => `Deserializer` rule=R7
//@@ spec
    ensures *r.de == *old(de), *final(de) == *final(r.de),
        r.field_count == 1, r.counter == 0,        // [C05.composite.descriptor-first] a described list starts with ONE expected field, its descriptor; the number of the others is read from the list header on the wire (consume_list_header, unit READERS)
//@@ end

//@@ fn file=serde_amqp/src/de.rs impl=`impl<'a, 'de, R: Read<'de>> DescribedAccess<'a, R>` name=basic
//@@ subst `Deserializer<R>` => `Deserializer` rule=R7
//@@ spec
    ensures *r.de == *old(de), *final(de) == *final(r.de),
        r.field_count == field_count, r.counter == 0,       // [C03.composite.basic-field-count] a described basic type is handed exactly the number of fields its Rust type declares
//@@ end

//@@ fn file=serde_amqp/src/de.rs impl=`impl<'a, 'de, R: Read<'de>> DescribedAccess<'a, R>` name=map
//@@ subst `Deserializer<R>` => `Deserializer` rule=R7
//@@ spec
    ensures *r.de == *old(de), *final(de) == *final(r.de),
        r.field_count == 1, r.counter == 0,        // [C05.composite.descriptor-first] a described map likewise: the descriptor first, the entry count from the wire
//@@ end
}
impl<'a> TransparentVecAccess<'a> {
//@@ fn file=serde_amqp/src/de.rs impl=`impl<'a, R> TransparentVecAccess<'a, R>` name=new id=TransparentVecAccess::new
//@@ subst `Deserializer<R>` => `Deserializer` rule=R7
//@@ spec
    ensures *r.de == *old(de), *final(de) == *final(r.de), r.cached is None,
//@@ end
}
impl<'a> VariantAccess<'a> {
//@@ fn file=serde_amqp/src/de.rs impl=`impl<'a, R> VariantAccess<'a, R>` name=new id=VariantAccess::new
//@@ subst `Deserializer<R>` => `Deserializer` rule=R7
//@@ spec
    ensures *r.de == *old(de), *final(de) == *final(r.de),
//@@ end
}
impl VisS {
    #[verifier::external_body]
    pub fn visit_seq<'a>(self, acc: DescribedAccess<'a>) -> (r: Result<ValueS, Error>)
        ensures final(acc.de).called@ == old(acc.de).called@.push(Call::Handed(Hand::SeqDescribed { field_count: acc.field_count as int, counter: acc.counter as int }, snap(*old(acc.de)))),
            old(acc.de).non_native_type is None ==> final(acc.de).non_native_type is None,
    { unimplemented!() }
    #[verifier::external_body]
    pub fn visit_map<'a>(self, acc: DescribedAccess<'a>) -> (r: Result<ValueS, Error>)
        ensures final(acc.de).called@ == old(acc.de).called@.push(Call::Handed(Hand::MapDescribed { field_count: acc.field_count as int, counter: acc.counter as int }, snap(*old(acc.de)))),
            old(acc.de).non_native_type is None ==> final(acc.de).non_native_type is None,
    { unimplemented!() }
    /// visit_seq handed a TransparentVecAccess (R28: one stand-in per argument type)
    #[verifier::external_body]
    pub fn visit_seq_transparent<'a>(self, acc: TransparentVecAccess<'a>) -> (r: Result<ValueS, Error>)
        ensures final(acc.de).called@ == old(acc.de).called@.push(Call::Handed(Hand::SeqTransparent, snap(*old(acc.de)))),
            old(acc.de).non_native_type is None ==> final(acc.de).non_native_type is None,
    { unimplemented!() }
    #[verifier::external_body]
    pub fn visit_enum<'a>(self, acc: VariantAccess<'a>) -> (r: Result<ValueS, Error>)
        ensures final(acc.de).called@ == old(acc.de).called@.push(Call::Handed(Hand::Enum, snap(*old(acc.de)))),
            old(acc.de).non_native_type is None ==> final(acc.de).non_native_type is None,
    { unimplemented!() }
}

// ================================================================ the typed entry points of `impl de::Deserializer for &mut Deserializer<R>` (de.rs)
/// a scalar entry point: the value the parser decoded is the value the visitor is shown
pub open spec fn scalar_handed(de0: Deserializer, de1: Deserializer, r: Result<ValueS, Error>) -> bool {
    &&& same_modes(de1, de0)
    &&& r is Ok ==> de1.called@ == de0.called@.push(Call::Parsed(r->Ok_0.via@))
    &&& de1.called@.len() <= de0.called@.len() + 1
}
impl Deserializer {
//@@ fn file=serde_amqp/src/de.rs impl=`~de::Deserializer<'de>for&mutDeserializer<R>` name=deserialize_bool
//@@ selfmut
//@@ qmark
//@@ generics
//@@ nowhere
//@@ param visitor : VisS
//@@ ret Result<ValueS, Error>
//@@ spec
    ensures scalar_handed(*old(self), *final(self), r),
        r is Ok ==> r->Ok_0.via@ is Bool,       // [C03.entry.scalar-hand-over] [C05.entry.scalar-hand-over] a typed bool is decoded by the bool parser (every width variant it accepts: unit READERS), once, and the visitor is shown exactly the value the parser returned
//@@ end

//@@ fn file=serde_amqp/src/de.rs impl=`~de::Deserializer<'de>for&mutDeserializer<R>` name=deserialize_i8
//@@ selfmut
//@@ qmark
//@@ generics
//@@ nowhere
//@@ param visitor : VisS
//@@ ret Result<ValueS, Error>
//@@ spec
    ensures scalar_handed(*old(self), *final(self), r),
        r is Ok ==> r->Ok_0.via@ is I8,       // [C03.entry.scalar-hand-over] [C05.entry.scalar-hand-over] a typed i8 is decoded by the i8 parser (every width variant it accepts: unit READERS), once, and the visitor is shown exactly the value the parser returned
//@@ end

//@@ fn file=serde_amqp/src/de.rs impl=`~de::Deserializer<'de>for&mutDeserializer<R>` name=deserialize_i16
//@@ selfmut
//@@ qmark
//@@ generics
//@@ nowhere
//@@ param visitor : VisS
//@@ ret Result<ValueS, Error>
//@@ spec
    ensures scalar_handed(*old(self), *final(self), r),
        r is Ok ==> r->Ok_0.via@ is I16,       // [C03.entry.scalar-hand-over] [C05.entry.scalar-hand-over] a typed i16 is decoded by the i16 parser (every width variant it accepts: unit READERS), once, and the visitor is shown exactly the value the parser returned
//@@ end

//@@ fn file=serde_amqp/src/de.rs impl=`~de::Deserializer<'de>for&mutDeserializer<R>` name=deserialize_i32
//@@ selfmut
//@@ qmark
//@@ generics
//@@ nowhere
//@@ param visitor : VisS
//@@ ret Result<ValueS, Error>
//@@ spec
    ensures scalar_handed(*old(self), *final(self), r),
        r is Ok ==> r->Ok_0.via@ is I32,       // [C03.entry.scalar-hand-over] [C05.entry.scalar-hand-over] a typed i32 is decoded by the i32 parser (every width variant it accepts: unit READERS), once, and the visitor is shown exactly the value the parser returned
//@@ end

//@@ fn file=serde_amqp/src/de.rs impl=`~de::Deserializer<'de>for&mutDeserializer<R>` name=deserialize_u8
//@@ selfmut
//@@ qmark
//@@ generics
//@@ nowhere
//@@ param visitor : VisS
//@@ ret Result<ValueS, Error>
//@@ spec
    ensures scalar_handed(*old(self), *final(self), r),
        r is Ok ==> r->Ok_0.via@ is U8,       // [C03.entry.scalar-hand-over] [C05.entry.scalar-hand-over] a typed u8 is decoded by the u8 parser (every width variant it accepts: unit READERS), once, and the visitor is shown exactly the value the parser returned
//@@ end

//@@ fn file=serde_amqp/src/de.rs impl=`~de::Deserializer<'de>for&mutDeserializer<R>` name=deserialize_u16
//@@ selfmut
//@@ qmark
//@@ generics
//@@ nowhere
//@@ param visitor : VisS
//@@ ret Result<ValueS, Error>
//@@ spec
    ensures scalar_handed(*old(self), *final(self), r),
        r is Ok ==> r->Ok_0.via@ is U16,       // [C03.entry.scalar-hand-over] [C05.entry.scalar-hand-over] a typed u16 is decoded by the u16 parser (every width variant it accepts: unit READERS), once, and the visitor is shown exactly the value the parser returned
//@@ end

//@@ fn file=serde_amqp/src/de.rs impl=`~de::Deserializer<'de>for&mutDeserializer<R>` name=deserialize_u32
//@@ selfmut
//@@ qmark
//@@ generics
//@@ nowhere
//@@ param visitor : VisS
//@@ ret Result<ValueS, Error>
//@@ spec
    ensures scalar_handed(*old(self), *final(self), r),
        r is Ok ==> r->Ok_0.via@ is U32,       // [C03.entry.scalar-hand-over] [C05.entry.scalar-hand-over] a typed u32 is decoded by the u32 parser (every width variant it accepts: unit READERS), once, and the visitor is shown exactly the value the parser returned
//@@ end

//@@ fn file=serde_amqp/src/de.rs impl=`~de::Deserializer<'de>for&mutDeserializer<R>` name=deserialize_u64
//@@ selfmut
//@@ qmark
//@@ generics
//@@ nowhere
//@@ param visitor : VisS
//@@ ret Result<ValueS, Error>
//@@ spec
    ensures scalar_handed(*old(self), *final(self), r),
        r is Ok ==> r->Ok_0.via@ is U64,       // [C03.entry.scalar-hand-over] [C05.entry.scalar-hand-over] a typed u64 is decoded by the u64 parser (every width variant it accepts: unit READERS), once, and the visitor is shown exactly the value the parser returned
//@@ end

//@@ fn file=serde_amqp/src/de.rs impl=`~de::Deserializer<'de>for&mutDeserializer<R>` name=deserialize_f32
//@@ selfmut
//@@ qmark
//@@ generics
//@@ nowhere
//@@ param visitor : VisS
//@@ ret Result<ValueS, Error>
//@@ spec
    ensures scalar_handed(*old(self), *final(self), r),
        r is Ok ==> r->Ok_0.via@ is F32,       // [C03.entry.scalar-hand-over] [C05.entry.scalar-hand-over] a typed f32 is decoded by the f32 parser (every width variant it accepts: unit READERS), once, and the visitor is shown exactly the value the parser returned
//@@ end

//@@ fn file=serde_amqp/src/de.rs impl=`~de::Deserializer<'de>for&mutDeserializer<R>` name=deserialize_f64
//@@ selfmut
//@@ qmark
//@@ generics
//@@ nowhere
//@@ param visitor : VisS
//@@ ret Result<ValueS, Error>
//@@ spec
    ensures scalar_handed(*old(self), *final(self), r),
        r is Ok ==> r->Ok_0.via@ is F64,       // [C03.entry.scalar-hand-over] [C05.entry.scalar-hand-over] a typed f64 is decoded by the f64 parser (every width variant it accepts: unit READERS), once, and the visitor is shown exactly the value the parser returned
//@@ end

//@@ fn file=serde_amqp/src/de.rs impl=`~de::Deserializer<'de>for&mutDeserializer<R>` name=deserialize_char
//@@ selfmut
//@@ qmark
//@@ generics
//@@ nowhere
//@@ param visitor : VisS
//@@ ret Result<ValueS, Error>
//@@ spec
    ensures scalar_handed(*old(self), *final(self), r),
        r is Ok ==> r->Ok_0.via@ is Char,       // [C03.entry.scalar-hand-over] [C05.entry.scalar-hand-over] a typed char is decoded by the char parser (every width variant it accepts: unit READERS), once, and the visitor is shown exactly the value the parser returned
//@@ end

//@@ fn file=serde_amqp/src/de.rs impl=`~de::Deserializer<'de>for&mutDeserializer<R>` name=deserialize_i64
//@@ selfmut
//@@ qmark
//@@ blockarms
//@@ generics
//@@ nowhere
//@@ param visitor : VisS
//@@ ret Result<ValueS, Error>
//@@ spec
    ensures
        old(self).non_native_type is None || old(self).non_native_type->Some_0 is Timestamp ==> final(self).non_native_type is None,      // [C03.marker.one-shot] the Timestamp marker is consumed by the value it marks: the NEXT long read through this deserializer is an ordinary long again
        old(self).non_native_type is Some && !(old(self).non_native_type->Some_0 is Timestamp) ==> final(self).non_native_type == old(self).non_native_type,
        final(self).seq_type == old(self).seq_type, final(self).enum_type == old(self).enum_type, final(self).struct_encoding == old(self).struct_encoding, final(self).elem_format_code == old(self).elem_format_code,
        final(self).called@.len() <= old(self).called@.len() + 1,
        r is Ok ==> r->Ok_0.via@ is I64 && final(self).called@ == old(self).called@.push(
            if old(self).non_native_type is Some && old(self).non_native_type->Some_0 is Timestamp { Call::ParsedTimestamp(r->Ok_0.via@->I64_0) } else { Call::Parsed(r->Ok_0.via@) }),       // [C03.entry.scalar-hand-over] [C05.entry.scalar-hand-over] [C05.timestamp.own-constructor] a long is decoded by the long parser, a value announced as timestamp by the timestamp parser (constructor 0x83: a timestamp is not a long on the wire), and handed on as decoded
//@@ end

//@@ fn file=serde_amqp/src/de.rs impl=`~de::Deserializer<'de>for&mutDeserializer<R>` name=deserialize_option
//@@ selfmut
//@@ qmark
//@@ blockarms
//@@ generics
//@@ nowhere
//@@ param visitor : VisS
//@@ ret Result<ValueS, Error>
//@@ spec
    ensures
        old(self).non_native_type is None ==> final(self).non_native_type is None,
        eff_code(*old(self)) == Some(0x40u8) && r is Ok && old(self).reader.reliable@ ==> r->Ok_0.via@ == VisCall::Nothing && final(self).called@ == old(self).called@
            && same_modes(*final(self), *old(self))
            && (old(self).elem_format_code is None ==> final(self).reader.rest@ == old(self).reader.rest@.skip(1))
            && (old(self).elem_format_code is Some ==> final(self).reader.rest@ == old(self).reader.rest@),       // [C05.option.null-is-none] [C03.option.null-is-none] an absent optional value is the null constructor 0x40: it is consumed (inside an array of nulls there is nothing on the wire to consume) and the visitor is told `none`
        eff_code(*old(self)) is Some && eff_code(*old(self)) != Some(0x40u8) && r is Ok ==> final(self).called@ == old(self).called@.push(Call::Handed(Hand::Some_, snap(*old(self)))),      // [C05.option.present-value-untouched] [C03.option.present-value-untouched] any other constructor is a present value: it is handed on with NOTHING consumed, constructor included
        eff_code(*old(self)) is None ==> r is Err,        // [C04.option.end-of-input] no input: an error, no panic
//@@ end

//@@ fn file=serde_amqp/src/de.rs impl=`~de::Deserializer<'de>for&mutDeserializer<R>` name=deserialize_unit
//@@ selfmut
//@@ generics
//@@ nowhere
//@@ param visitor : VisS
//@@ ret Result<ValueS, Error>
//@@ subst `self.parse_unit().and_then(|_v0| visitor.visit_unit())` => `(match self.parse_unit() { Ok(_v0) => visitor.visit_unit(), Err(e) => Err(e) })` rule=R19 unless `and_then`
//@@ spec
    ensures scalar_handed(*old(self), *final(self), r),
        r is Ok ==> r->Ok_0.via@ == VisCall::Unit,       // [C03.entry.scalar-hand-over] [C05.entry.scalar-hand-over] a unit is a null on the wire: the visitor is told so only after parse_unit accepted one
//@@ end

//@@ fn file=serde_amqp/src/de.rs impl=`~de::Deserializer<'de>for&mutDeserializer<R>` name=deserialize_unit_struct
//@@ selfmut
//@@ generics
//@@ nowhere
//@@ param visitor : VisS
//@@ ret Result<ValueS, Error>
//@@ spec
    ensures scalar_handed(*old(self), *final(self), r),
        r is Ok ==> r->Ok_0.via@ == VisCall::Unit,       // [C03.entry.scalar-hand-over]
//@@ end

//@@ fn file=serde_amqp/src/de.rs impl=`~de::Deserializer<'de>for&mutDeserializer<R>` name=deserialize_newtype_struct
//@@ selfmut
//@@ generics
//@@ nowhere
//@@ param visitor : VisS
//@@ ret Result<ValueS, Error>
//@@ subst `visitor.visit_seq(TransparentVecAccess::new(self))` => `visitor.visit_seq_transparent(TransparentVecAccess::new(self))` rule=R28
//@@ entry
    proof { lemma_names_distinct(); }
//@@ spec
    ensures
        old(self).non_native_type is None ==> final(self).non_native_type is None,      // [C03.marker.one-shot] [C04.marker.no-unreachable-panic] whatever the name: a marker set for this value is gone when the value has been read -- it cannot reach the next value (where the wrong one ends in `unreachable!`)
        final(self).called@.len() <= old(self).called@.len() + 1,
        ({
            let c = final(self).called@.last();
            let one = final(self).called@.len() == old(self).called@.len() + 1;
            let s0 = snap(*old(self));
            let with = |m: NonNativeType| Snap { marker: Some(m), ..s0 };
            // [C03.newtype.marker-matches-entry] [C05.newtype.marker-matches-entry] each AMQP type that serde's data model lacks announces itself by name and is decoded by the entry point that understands its marker, with THAT marker set and nothing else changed: symbol -> string, borrowed symbol -> str, decimal32/64/128 and uuid -> bytes, timestamp -> i64, lazy value -> byte_buf
            &&& name@ == SYMBOL@ ==> one && c == Call::Entry(Ent::String, with(NonNativeType::Symbol))
            &&& name@ == SYMBOL_REF@ ==> one && c == Call::Entry(Ent::Str, with(NonNativeType::SymbolRef))
            &&& name@ == DECIMAL32@ ==> one && c == Call::Entry(Ent::Bytes, with(NonNativeType::Dec32))
            &&& name@ == DECIMAL64@ ==> one && c == Call::Entry(Ent::Bytes, with(NonNativeType::Dec64))
            &&& name@ == DECIMAL128@ ==> one && c == Call::Entry(Ent::Bytes, with(NonNativeType::Dec128))
            &&& name@ == UUID@ ==> one && c == Call::Entry(Ent::Bytes, with(NonNativeType::Uuid))
            &&& name@ == LAZY_VALUE@ ==> one && c == Call::Entry(Ent::ByteBuf, with(NonNativeType::LazyValue))
            &&& name@ == TRANSPARENT_VEC@ ==> one && c == Call::Handed(Hand::SeqTransparent, Snap { st: Some(SequenceType::TransparentVec), ..s0 })
            &&& name@ == TIMESTAMP@ ==> (r is Ok ==> one && c is ParsedTimestamp && r->Ok_0.via@ == VisCall::I64(c->ParsedTimestamp_0))
            &&& !(name@ == SYMBOL@ || name@ == SYMBOL_REF@ || name@ == DECIMAL32@ || name@ == DECIMAL64@ || name@ == DECIMAL128@ || name@ == UUID@ || name@ == LAZY_VALUE@ || name@ == TRANSPARENT_VEC@ || name@ == TIMESTAMP@)
                    ==> one && c == Call::Handed(Hand::Newtype, s0)        // [C03.newtype.plain-newtype-transparent] any other newtype is transparent: its content is decoded with the deserializer as it was
        }),
//@@ end

//@@ fn file=serde_amqp/src/de.rs impl=`~de::Deserializer<'de>for&mutDeserializer<R>` name=deserialize_tuple_struct
//@@ selfmut
//@@ qmark
//@@ blockarms
//@@ generics
//@@ nowhere
//@@ param visitor : VisS
//@@ ret Result<ValueS, Error>
//@@ entry
    proof { lemma_names_distinct(); }
//@@ spec
    ensures
        old(self).non_native_type is None ==> final(self).non_native_type is None,
        final(self).called@.len() <= old(self).called@.len() + 1,
        ({
            let c = final(self).called@.last();
            let one = final(self).called@.len() == old(self).called@.len() + 1;
            let s0 = snap(*old(self));
            // [C05.composite.described-list-form] [C03.composite.described-list-form] a composite type declared as a described basic / described list is read through the described access: descriptor first, then as many fields as the type declares (basic) or the list header announces (list)
            &&& name@ == DESCRIBED_BASIC@ ==> one && c == Call::Handed(Hand::SeqDescribed { field_count: (len as u32) as int, counter: 0 }, Snap { enc: StructEncoding::DescribedBasic, ..s0 })
            &&& name@ == DESCRIBED_LIST@ ==> one && c == Call::Handed(Hand::SeqDescribed { field_count: 1, counter: 0 }, Snap { enc: StructEncoding::DescribedList, ..s0 })
            &&& name@ != DESCRIBED_BASIC@ && name@ != DESCRIBED_LIST@ && r is Ok ==> one && eff_code(*old(self)) is Some
                    && (if eff_code(*old(self)) == Some(0x00u8) { c == Call::Handed(Hand::SeqDescribed { field_count: 1, counter: 0 }, s0) }        // [C05.composite.described-value-accepted] a plain tuple struct whose encoding starts with the described-type constructor 0x00 is read as described
                        else { c == Call::Entry(Ent::Tuple(len as int), s0) })                                                                    // otherwise as a list of `len` elements, with nothing consumed before the hand-over
        }),
        eff_code(*old(self)) is Some && named_code(eff_code(*old(self))->Some_0) ==> final(self).called@.len() == old(self).called@.len() + 1,       // [C05.struct.every-form-accepted]
//@@ end

//@@ fn file=serde_amqp/src/de.rs impl=`~de::Deserializer<'de>for&mutDeserializer<R>` name=deserialize_struct
//@@ selfmut
//@@ qmark
//@@ blockarms
//@@ orsplit
//@@ generics
//@@ nowhere
//@@ param visitor : VisS
//@@ ret Result<ValueS, Error>
//@@ entry
    proof { lemma_names_distinct(); }
//@@ spec
    requires fields@.len() <= u32::MAX,
    ensures
        old(self).non_native_type is None ==> final(self).non_native_type is None,
        final(self).called@.len() <= old(self).called@.len() + 1,
        name@ == DESCRIBED_BASIC@ || name@ == DESCRIBED_LIST@ || name@ == DESCRIBED_MAP@ ==> final(self).struct_encoding == old(self).struct_encoding,      // [C03.struct.encoding-restored] [C05.struct.encoding-restored] a composite nested in another composite does not leave ITS encoding behind: the remaining fields of the enclosing composite are read under the enclosing composite's encoding (a described list inside a described map, an error inside a detach)
        ({
            let c = final(self).called@.last();
            let one = final(self).called@.len() == old(self).called@.len() + 1;
            let s0 = snap(*old(self));
            // [C05.composite.list-vs-map-form] [C03.composite.list-vs-map-form] the composite forms of AMQP 1.0: described basic (as many fields as the Rust type declares), described list (count from the wire), described map
            &&& name@ == DESCRIBED_BASIC@ ==> one && c == Call::Handed(Hand::SeqDescribed { field_count: fields@.len() as int, counter: 0 }, Snap { enc: StructEncoding::DescribedBasic, ..s0 })
            &&& name@ == DESCRIBED_LIST@ ==> one && c == Call::Handed(Hand::SeqDescribed { field_count: 1, counter: 0 }, Snap { enc: StructEncoding::DescribedList, ..s0 })
            &&& name@ == DESCRIBED_MAP@ ==> one && c == Call::Handed(Hand::MapDescribed { field_count: 1, counter: 0 }, Snap { enc: StructEncoding::DescribedMap, ..s0 })
            &&& name@ != DESCRIBED_BASIC@ && name@ != DESCRIBED_LIST@ && name@ != DESCRIBED_MAP@ && r is Ok ==> one && eff_code(*old(self)) is Some && ({
                    let k = eff_code(*old(self))->Some_0;
                    let s1 = Snap { enc: StructEncoding::None, ..s0 };
                    // [C05.struct.plain-struct-forms] a struct without descriptor is a list (list0 / list8 / list32: `fields.len()` elements), a map (map8 / map32) or, if its encoding starts with 0x00, a described list; nothing is consumed before the hand-over; anything else is refused
                    &&& (k == 0x45 || k == 0xc0 || k == 0xd0) ==> c == Call::Entry(Ent::Tuple(fields@.len() as int), s1)
                    &&& (k == 0xc1 || k == 0xd1) ==> c == Call::Entry(Ent::Map, s1)
                    &&& k == 0x00 ==> c == Call::Handed(Hand::SeqDescribed { field_count: 1, counter: 0 }, s1)
                    &&& (k == 0x45 || k == 0xc0 || k == 0xd0 || k == 0xc1 || k == 0xd1 || k == 0x00)
                })
        }),
        name@ != DESCRIBED_BASIC@ && name@ != DESCRIBED_LIST@ && name@ != DESCRIBED_MAP@ && eff_code(*old(self)) is Some && ({ let k = eff_code(*old(self))->Some_0; k == 0x45 || k == 0xc0 || k == 0xd0 || k == 0xc1 || k == 0xd1 || k == 0x00 })
            ==> final(self).called@.len() == old(self).called@.len() + 1,       // [C05.struct.every-form-accepted] every one of these forms -- list0, list8, list32, map8, map32, described -- is taken up (handed to the matching decoder), none is refused here
//@@ end

//@@ fn file=serde_amqp/src/de.rs impl=`~de::Deserializer<'de>for&mutDeserializer<R>` name=deserialize_enum
//@@ selfmut
//@@ qmark
//@@ blockarms
//@@ orsplit
//@@ generics
//@@ nowhere
//@@ param visitor : VisS
//@@ ret Result<ValueS, Error>
//@@ subst `use crate::__constants::UNTAGGED_ENUM;` => `` rule=R6
//@@ subst `u32::from_be_bytes(size_bytes)` => `from_be32(size_bytes)` rule=R14
//@@ subst `u32::from_be_bytes(count_bytes)` => `from_be32(count_bytes)` rule=R14
//@@ entry
    proof { lemma_names_distinct(); }
//@@ spec
    ensures
        old(self).non_native_type is None ==> final(self).non_native_type is None,
        final(self).called@.len() <= old(self).called@.len() + 1,
        r is Ok || final(self).called@.len() == old(self).called@.len() + 1 ==> final(self).enum_type == old(self).enum_type,       // [C03.enum.type-restored] [C05.enum.type-restored] the way identifiers are read (Value / Descriptor / Array dispatch by constructor) is in force for THIS enum only: once it has been decoded the enclosing enum's mode is back (a Value inside a Described inside a Value)
        ({
            let c = final(self).called@.last();
            let one = final(self).called@.len() == old(self).called@.len() + 1;
            let s0 = snap(*old(self));
            &&& name@ == VALUE@ ==> one && c == Call::Handed(Hand::Enum, Snap { et: EnumType::Value, ..s0 })            // [C03.enum.dispatch-mode] the untyped value, the descriptor and the array each pick their variant from the constructor on the wire, nothing consumed
            &&& name@ == DESCRIPTOR@ ==> one && c == Call::Handed(Hand::Enum, Snap { et: EnumType::Descriptor, ..s0 })
            &&& name@ == ARRAY@ ==> one && c == Call::Handed(Hand::Enum, Snap { et: EnumType::Array, ..s0 })
            &&& name@ == UNTAGGED_ENUM@ ==> one && c == Call::Handed(Hand::Enum, s0)
            &&& name@ != VALUE@ && name@ != DESCRIPTOR@ && name@ != ARRAY@ && name@ != UNTAGGED_ENUM@ && r is Ok ==> one && c is Handed && c->Handed_0 == Hand::Enum && eff_code(*old(self)) is Some && ({
                    let k = eff_code(*old(self))->Some_0;
                    let u = old(self).reader.rest@;
                    let at = c->Handed_1;
                    &&& at.enc == s0.enc && at.et == s0.et && at.st == s0.st && at.marker == s0.marker && at.elem == s0.elem
                    &&& k != 0x45                                                                                               // an empty list is no variant
                    // [C05.enum.list-form-header] a variant with content is a list (or map) of exactly two items, index and content: the 8-bit header is three octets, the 32-bit header nine, the count field is read big-endian from where the spec puts it, and the visitor starts right behind the header
                    &&& (k == 0xc0 || k == 0xc1) && old(self).elem_format_code is None ==> u.len() >= 3 && u[2] == 2 && at.rest == u.skip(3)
                    &&& (k == 0xd0 || k == 0xd1) && old(self).elem_format_code is None ==> u.len() >= 9 && sp_be32(u.subrange(5, 9)) == 2 && at.rest == u.skip(9)
                    &&& !(k == 0xc0 || k == 0xc1 || k == 0xd0 || k == 0xd1) ==> at.rest == u                                   // a unit variant (uint), a symbol, a described value: nothing consumed
                })
        }),
        name@ != VALUE@ && name@ != DESCRIPTOR@ && name@ != ARRAY@ && name@ != UNTAGGED_ENUM@ && eff_code(*old(self)) is Some && ({
                let k = eff_code(*old(self))->Some_0;
                let u = old(self).reader.rest@;
                ||| (k == 0x70 || k == 0x52 || k == 0x43 || k == 0xa3 || k == 0xb3 || k == 0x00)
                ||| ((k == 0xc0 || k == 0xc1) && old(self).elem_format_code is None && old(self).reader.reliable@ && u.len() >= 3 && u[2] == 2)
                ||| ((k == 0xd0 || k == 0xd1) && old(self).elem_format_code is None && old(self).reader.reliable@ && u.len() >= 9 && sp_be32(u.subrange(5, 9)) == 2)
            }) ==> final(self).called@.len() == old(self).called@.len() + 1,       // [C05.enum.every-form-accepted] a variant index in any uint width, a symbol, a described value, and a well-formed two-item list / map header in either width are all taken up: none is refused here
//@@ end

//@@ fn file=serde_amqp/src/de.rs impl=`~de::Deserializer<'de>for&mutDeserializer<R>` name=deserialize_identifier
//@@ selfmut
//@@ qmark
//@@ blockarms
//@@ orsplit
//@@ generics
//@@ nowhere
//@@ param visitor : VisS
//@@ ret Result<ValueS, Error>
//@@ entry
    proof { lemma_names_distinct(); }
//@@ spec
    ensures
        old(self).non_native_type is None ==> final(self).non_native_type is None,
        (old(self).enum_type is Value || old(self).enum_type is Array) && r is Ok ==> eff_code(*old(self)) is Some && r->Ok_0.via@ == VisCall::U8(eff_code(*old(self))->Some_0)
            && *final(self) == *old(self),          // [C03.identifier.by-constructor] [C05.identifier.by-constructor] the variant of an untyped value / of an array is named by the constructor about to be read (the array's element constructor inside an array); it stays unread for the variant's own decoder
        old(self).enum_type is Descriptor && r is Ok ==> old(self).reader.rest@.len() >= 1 && old(self).reader.rest@[0] == 0x00
            && final(self).reader.rest@ == old(self).reader.rest@.skip(1) && final(self).enum_type is None
            && (old(self).elem_format_code is None ==> old(self).reader.rest@.len() >= 2 && r->Ok_0.via@ == VisCall::U8(old(self).reader.rest@[1])),       // [C05.identifier.descriptor] a descriptor starts with the described-type constructor 0x00, which is consumed; symbol-or-ulong is then chosen from the NEXT constructor, left unread; the mode is reset so that the descriptor's own value is an ordinary value
        old(self).enum_type is None && r is Ok ==> eff_code(*old(self)) is Some && ({
            let k = eff_code(*old(self))->Some_0;
            let s0 = snap(*old(self));
            let c = final(self).called@.last();
            let one = final(self).called@.len() == old(self).called@.len() + 1;
            // [C05.identifier.field-or-variant-name] a field name is a string (map-encoded composites), a variant index a uint (every width variant), a descriptor name a symbol, a descriptor code a ulong (every width variant), a described value its descriptor: each goes to the decoder of that type, unread
            &&& (k == 0xa1 || k == 0xb1) ==> one && c == Call::Entry(Ent::Str, s0)
            &&& (k == 0x70 || k == 0x52 || k == 0x43) ==> one && c is Parsed && c->Parsed_0 is U32 && r->Ok_0.via@ == c->Parsed_0
            &&& (k == 0xa3 || k == 0xb3) ==> one && c == Call::Entry(Ent::String, Snap { marker: Some(NonNativeType::Symbol), ..s0 })
            &&& (k == 0x80 || k == 0x53 || k == 0x44) ==> one && c is Parsed && c->Parsed_0 is U64 && r->Ok_0.via@ == c->Parsed_0
            &&& k == 0x00 ==> one && c == Call::Entry(Ent::DescribedIdent, s0)
        }),
//@@ end

//@@ fn file=serde_amqp/src/de.rs impl=`~de::Deserializer<'de>for&mutDeserializer<R>` name=deserialize_ignored_any
//@@ selfmut
//@@ qmark
//@@ blockarms
//@@ generics
//@@ nowhere
//@@ param visitor : VisS
//@@ ret Result<ValueS, Error>
//@@ spec
    ensures
        old(self).non_native_type is None ==> final(self).non_native_type is None,
        r is Ok ==> old(self).reader.rest@.len() > 0 && ({
            let k = old(self).reader.rest@[0];
            &&& k != 0x00 ==> r->Ok_0.via@ == VisCall::U8(k) && *final(self) == *old(self)          // [C20.peek.nothing-consumed] peeking at the type of what comes next consumes nothing
            &&& k == 0x00 ==> final(self).called@ == old(self).called@.push(Call::Entry(Ent::DescribedIdent, snap(*old(self))))
        }),
//@@ end
}

impl<'a> VariantAccess<'a> {
//@@ fn file=serde_amqp/src/de.rs impl=`~de::VariantAccess<'de>forVariantAccess<'_,R>` name=unit_variant
//@@ ret Result<(), Error>
//@@ spec
    ensures r is Ok, *final(self.de) == *old(self.de),        // [C03.enum.unit-variant-has-no-content] a unit variant is its index alone: nothing more is read
//@@ end

//@@ fn file=serde_amqp/src/de.rs impl=`~de::VariantAccess<'de>forVariantAccess<'_,R>` name=tuple_variant
//@@ generics
//@@ nowhere
//@@ param visitor : VisS
//@@ ret Result<ValueS, Error>
//@@ subst `de::Deserializer::deserialize_tuple(self.de, len, visitor)` => `self.de.deserialize_tuple(len, visitor)` rule=R2
//@@ spec
    ensures final(self.de).called@ == old(self.de).called@.push(Call::Entry(Ent::Tuple(len as int), snap(*old(self.de)))),       // [C03.enum.tuple-variant-content] the content of a tuple variant is a list of `len` elements
//@@ end
//@@ fn file=serde_amqp/src/de.rs impl=`~de::EnumAccess<'de>forVariantAccess<'_,R>` name=variant_seed id=VariantAccess::variant_seed
//@@ qmark
//@@ generics <'b>
//@@ nowhere
//@@ param seed : SeedS
//@@ ret Result<(ValueS, VariantAccess<'a>), Error>
//@@ subst `seed.deserialize(self.as_mut())` => `seed.deserialize(&mut *__self.de)` rule=R30
//@@ spec
    ensures
        r is Ok ==> (*r->Ok_0.1.de).called@ == old(self.de).called@.push(Call::Handed(Hand::Seed, snap(*old(self.de)))) && *final(self.de) == *final(r->Ok_0.1.de),       // [C03.enum.variant-identified-from-the-stream] [C05.enum.variant-identified-from-the-stream] the variant of an enum is identified by handing the deserializer -- as it stands -- to the identifier seed, once; the SAME access object (over the same deserializer) then decodes the content
//@@ end

//@@ fn file=serde_amqp/src/de.rs impl=`~de::VariantAccess<'de>forVariantAccess<'_,R>` name=newtype_variant_seed id=VariantAccess::newtype_variant_seed
//@@ generics
//@@ nowhere
//@@ param seed : SeedS
//@@ ret Result<ValueS, Error>
//@@ spec
    ensures final(self.de).called@ == old(self.de).called@.push(Call::Handed(Hand::Seed, snap(*old(self.de)))),       // [C03.enum.newtype-variant-content] [C05.enum.newtype-variant-content] the content of a newtype variant is decoded by handing the deserializer, as it stands behind the identifier, to the content's seed -- once
//@@ end

//@@ fn file=serde_amqp/src/de.rs impl=`~de::VariantAccess<'de>forVariantAccess<'_,R>` name=struct_variant id=VariantAccess::struct_variant
//@@ generics
//@@ nowhere
//@@ param visitor : VisS
//@@ ret Result<ValueS, Error>
//@@ subst `de::Deserializer::deserialize_struct(self.de, "", fields, visitor)` => `self.de.deserialize_struct("", fields, visitor)` rule=R2
//@@ entry
    proof { lemma_names_distinct(); }
//@@ spec
    requires fields@.len() <= u32::MAX,       // (the field names of a Rust type, as deserialize_struct requires)
    ensures final(self.de).called@.len() <= old(self.de).called@.len() + 1,       // [C03.enum.struct-variant-content] the content of a struct variant is decoded as a plain (undescribed) struct: the list of its fields
//@@ end
}

// ================================================================ the two public entry points (de.rs): from_slice and from_reader
/// `#[default]` of util::EnumType (stated here; the enum itself is extracted)
pub fn enum_type_default() -> (r: EnumType) ensures r is None { EnumType::None }
/// the input, as a slice or as a stream
pub struct InputS { pub bytes: Ghost<Seq<u8>> }
pub struct SliceReader {}
pub struct IoReader {}
impl SliceReader { #[verifier::external_body] pub fn new(i: InputS) -> (r: ReaderS) ensures r.rest@ == i.bytes@, r.reliable@ { unimplemented!() } }
impl IoReader { #[verifier::external_body] pub fn new(i: InputS) -> (r: ReaderS) ensures r.rest@ == i.bytes@, r.reliable@ { unimplemented!() } }
/// the type being decoded (`T::deserialize(&mut de)`): a seed
pub struct T {}
impl T {
    #[verifier::external_body]
    pub fn deserialize(de: &mut Deserializer) -> (r: Result<ValueS, Error>)
        ensures final(de).called@ == old(de).called@.push(Call::Handed(Hand::Seed, snap(*old(de)))), r == decoded_from(snap(*old(de))),
    { unimplemented!() }
}
/// what the type's Deserialize impl makes of a deserializer in state `s` (it reaches the input only through the entry points above, whose behaviour over either reader is ONE contract: unit READERS)
pub uninterp spec fn decoded_from(s: Snap) -> Result<ValueS, Error>;
/// the state a decoding starts in: nothing pending, outside any array, at the first octet of the input
pub open spec fn start_snap(input: Seq<u8>) -> Snap { Snap { enc: StructEncoding::None, et: EnumType::None, st: None, marker: None, elem: None, rest: input } }
impl Deserializer {
//@@ fn file=serde_amqp/src/de.rs impl=`impl<'de, R: Read<'de>> Deserializer<R>` name=new id=Deserializer::new
//@@ param reader : ReaderS
//@@ subst `Default::default()` => `enum_type_default()` rule=R16
//@@ subst `elem_format_code: None,` => `elem_format_code: None, called: Ghost(Seq::empty()),` rule=R11
//@@ spec
    ensures snap(r) == start_snap(reader.rest@), r.reader == reader, r.called@.len() == 0,       // [C03.de.fresh-deserializer-is-plain] [C20.de.fresh-deserializer-is-plain] a new deserializer has no marker pending, no struct encoding, is not inside an array and has consumed nothing
//@@ end
}
//@@ fn file=serde_amqp/src/de.rs name=from_slice id=from_slice
//@@ generics
//@@ nowhere
//@@ param slice : InputS
//@@ ret Result<ValueS, Error>
//@@ spec
    ensures r == decoded_from(start_snap(slice.bytes@)),       // [C20.de.slice-and-stream-start-alike] [C03.de.entry-starts-unmarked] from_slice hands the type a deserializer with nothing pending, outside any array, at the first octet of the input, and returns what the type makes of it
//@@ end
//@@ fn file=serde_amqp/src/de.rs name=from_reader id=from_reader
//@@ generics
//@@ nowhere
//@@ param reader : InputS
//@@ ret Result<ValueS, Error>
//@@ spec
    ensures r == decoded_from(start_snap(reader.bytes@)),       // [C20.de.slice-and-stream-start-alike] from_reader: the SAME initial state over the same octets -- with the readers' one contract (unit READERS) decoding from a stream gives what decoding from a slice gives
//@@ end

} // verus!
fn main() {}
