//@@ unit ACCSESS
#![feature(allocator_api)]
#![allow(unused_imports, unused_variables, dead_code, unused_mut, unused_parens)]
use vstd::prelude::*;

verus! {

//@@ trusted the inner session (session::Session, unit SESSION) is a stand-in: on_incoming_flow / on_incoming_transfer return what the real functions may return (UnattachedHandle when the peer's handle is not attached); its link table is a map handle -> relay
//@@ trusted `pending_link_flows: HashMap<InputHandle, Vec<LinkFlow>>` is viewed as a map handle -> sequence; `entry(h).or_default().push(f)` is routed to a helper with that meaning (R15-like); LinkFlow::try_from(flow) yields the link part of a flow iff it names a handle
//@@ trusted async bodies with .await erased (R3)

macro_rules! opaque {
    ($($n:ident),*) => { verus!{ $(
        #[verifier::external_body]
        pub struct $n { _p: u8 }
        impl Clone for $n { #[verifier::external_body] fn clone(&self) -> (r: Self) ensures r == *self { unimplemented!() } }
    )* } }
}
opaque!(TransferRest, Payload, Disposition, FlowRest, ConnErr, OtherErr);
// bytes::Bytes as far as these functions may look at it: its length (R11)
impl Payload {
    pub uninterp spec fn spec_len(&self) -> nat;
    #[verifier::external_body]
    pub fn len(&self) -> (r: usize) ensures r == self.spec_len() { unimplemented!() }
    #[verifier::external_body]
    pub fn is_empty(&self) -> (r: bool) ensures r == (self.spec_len() == 0) { unimplemented!() }
}

/// R35: `v.extend(x)` (this Verus has no specification for Vec::extend): the elements x yields are appended in order -- an Option yields none or one, a Vec all of its elements
pub trait IntoSeqS<T>: Sized { spec fn seq_of(self) -> Seq<T>; }
impl<T> IntoSeqS<T> for Option<T> { open spec fn seq_of(self) -> Seq<T> { match self { Some(x) => seq![x], None => Seq::<T>::empty() } } }
impl<T> IntoSeqS<T> for Vec<T> { open spec fn seq_of(self) -> Seq<T> { self@ } }
#[verifier::external_body]
pub fn vec_extend_s<T, I: IntoSeqS<T>>(v: &mut Vec<T>, it: I)
    ensures final(v)@ == old(v)@ + it.seq_of(),
{ unimplemented!() }
/// session::frame::SessionOutgoingItem
pub enum SessionOutgoingItem { SingleFrame(SessionFrame), MultipleFrames(Vec<SessionFrame>) }
#[derive(Clone, Copy)]
pub struct InputHandle(pub u32);
pub struct Handle(pub u32);
impl Clone for Handle { fn clone(&self) -> (r: Self) ensures r == *self { Handle(self.0) } }
impl InputHandle { pub fn from(h: Handle) -> (r: Self) ensures r.0 == h.0 { InputHandle(h.0) } }
/// Transfer: the field the session routes by; the rest is one opaque field (R11)
pub struct Transfer { pub handle: Handle, pub rest: TransferRest }
/// a session flow; `handle` is set iff it also carries link flow state
pub struct Flow { pub handle: Option<Handle>, pub rest: FlowRest }
impl Clone for Flow { #[verifier::external_body] fn clone(&self) -> (r: Self) ensures r == *self { unimplemented!() } }
pub struct LinkFlow { pub handle: Handle, pub rest: FlowRest }
pub struct NoHandle {}
impl LinkFlow {
    /// `LinkFlow::try_from(flow)` (unit SESSION): Ok iff the flow names a link handle
    #[verifier::external_body]
    pub fn try_from(flow: Flow) -> (r: Result<LinkFlow, NoHandle>)
        ensures (match flow.handle { Some(h) => r is Ok && r->Ok_0.handle.0 == h.0 && r->Ok_0.rest == flow.rest, None => r is Err }),
    { unimplemented!() }
}
pub enum SessionInnerError { UnattachedHandle, HandleInUse, IllegalState, TransferFrameToSender, Other(OtherErr) }
opaque!(LinkRelayIn, OutputHandle, AllocLinkError);
/// what a registered link relay has been handed: the flows applied to its flow state, in order, and for a sender relay how many of them had been applied when its waiters were last woken
pub struct SenderFlowS { pub applied: Ghost<Seq<LinkFlow>>, pub notified_at: Ghost<nat> }
impl SenderFlowS {
    /// flow_state.state.on_incoming_flow(flow, output_handle) (LinkFlowState<SenderMarker>, unit LINKFLOW)
    #[verifier::external_body]
    pub fn state_on_incoming_flow(&mut self, flow: LinkFlow, oh: OutputHandle) -> (r: Option<LinkFlow>) ensures final(self).applied@ == old(self).applied@.push(flow), final(self).notified_at == old(self).notified_at { unimplemented!() }
    /// flow_state.notifier.notify_waiters()
    #[verifier::external_body]
    pub fn notify_waiters(&mut self) ensures final(self).applied == old(self).applied, final(self).notified_at@ == old(self).applied@.len() { unimplemented!() }
}
pub struct ReceiverFlowS { pub applied: Ghost<Seq<LinkFlow>> }
impl ReceiverFlowS {
    #[verifier::external_body]
    pub fn on_incoming_flow(&mut self, flow: LinkFlow, oh: OutputHandle) -> (r: Option<LinkFlow>) ensures final(self).applied@ == old(self).applied@.push(flow) { unimplemented!() }
}
/// `let _echo = <flow applied>;` in the replay of allocate_incoming_link: what LinkFlowState::on_incoming_flow returns is the flow the link OWES the peer in answer (drain: "all credit used up,
/// delivery-count advanced, zero credit"; echo: the current state) -- None when nothing is owed
pub fn answer_discarded(e: &Option<LinkFlow>)
    requires *e is None,        // [C08.listener.replayed-flow-answered] an answer the link owes to a replayed flow is written, not dropped: a drain request pipelined behind the attach is applied (delivery-count advanced over all credit) but the receiver is never told, so every later grant of no more than that credit computes to zero and send() hangs
{}
opaque!(ReceiverSettleMode, AttachRest);
pub enum LinkRelay { Sender { flow_state: SenderFlowS, output_handle: OutputHandle, receiver_settle_mode: ReceiverSettleMode }, Receiver { flow_state: ReceiverFlowS, output_handle: OutputHandle } }
/// Attach: the three fields the session reads; the rest is one opaque field
pub struct Attach { pub name: String, pub handle: Handle, pub rcv_settle_mode: ReceiverSettleMode, pub rest: AttachRest }
pub enum LinkFrame { Attach(Attach) }
pub struct ChanSendError { pub _p: u8 }
/// tokio mpsc::Sender<T> (R9): ghost trace of what was queued
pub struct ChanSender<T> { pub sent: Ghost<Seq<T>> }
impl<T> ChanSender<T> {
    #[verifier::external_body]
    pub fn send(&mut self, v: T) -> (r: Result<(), ChanSendError>)
        ensures r is Ok ==> final(self).sent@ == old(self).sent@.push(v), r is Err ==> final(self).sent@ == old(self).sent@,
    { unimplemented!() }
}
impl LinkRelay {
    /// LinkRelay::send (unit LINKRELAY): queues the frame for the link endpoint; the relay's flow state is not touched
    #[verifier::external_body]
    pub fn send(&mut self, frame: LinkFrame) -> (r: Result<(), ChanSendError>) ensures applied_of(*final(self)) == applied_of(*old(self)) { unimplemented!() }
}
pub open spec fn applied_of(r: LinkRelay) -> Seq<LinkFlow> { match r { LinkRelay::Sender { flow_state, .. } => flow_state.applied@, LinkRelay::Receiver { flow_state, .. } => flow_state.applied@ } }
/// `releasable` (ghost): the session holds back transfers (peer's incoming window was exhausted) although the window it last computed is open
pub struct SessionS { pub g: Ghost<int>, pub counted: Ghost<nat>, pub link_by_input_handle: LinkTable, pub link_by_name: NameTable, pub releasable: Ghost<bool>, pub remote_incoming_window: u32, pub remote_incoming_window_exhausted_buffer: ParkedS }
/// the session's queue of held-back transfers, reduced to whether it is empty
pub struct ParkedS { pub n: Ghost<nat> }
impl ParkedS {
    #[verifier::external_body]
    pub fn is_empty(&self) -> (r: bool) ensures r == (self.n@ == 0) { unimplemented!() }
}
opaque!(SessionFrame);
#[verifier::external_body]
pub struct LinkTable { m: Vec<u8> }
impl View for LinkTable { type V = Map<u32, LinkRelay>; uninterp spec fn view(&self) -> Map<u32, LinkRelay>; }
impl LinkTable {
    #[verifier::external_body]
    pub fn get_mut(&mut self, h: &InputHandle) -> (r: Option<&mut LinkRelay>)
        ensures
            !old(self)@.contains_key(h.0) ==> r is None && final(self)@ == old(self)@,
            old(self)@.contains_key(h.0) ==> r is Some && *r->Some_0 == old(self)@[h.0] && final(self)@ == old(self)@.insert(h.0, *final(r->Some_0)),
    { unimplemented!() }
}
impl LinkTable {
    #[verifier::external_body]
    pub fn contains_key(&self, h: &InputHandle) -> (r: bool) ensures r == self@.contains_key(h.0) { unimplemented!() }
    #[verifier::external_body]
    pub fn insert(&mut self, h: InputHandle, relay: LinkRelay) -> (r: Option<LinkRelay>) ensures final(self)@ == old(self)@.insert(h.0, relay) { unimplemented!() }
}
/// `link_by_name: HashMap<String, Option<LinkRelay<OutputHandle>>>`: None = the name is attached already
#[verifier::external_body]
pub struct NameTable { m: Vec<u8> }
impl View for NameTable { type V = Map<Seq<char>, Option<LinkRelay>>; uninterp spec fn view(&self) -> Map<Seq<char>, Option<LinkRelay>>; }
impl NameTable {
    #[verifier::external_body]
    pub fn get_mut(&mut self, name: &String) -> (r: Option<&mut Option<LinkRelay>>)
        ensures
            !old(self)@.contains_key(name@) ==> r is None && final(self)@ == old(self)@,
            old(self)@.contains_key(name@) ==> r is Some && *r->Some_0 == old(self)@[name@] && final(self)@ == old(self)@.insert(name@, *final(r->Some_0)),
    { unimplemented!() }
}
impl SessionS {
    #[verifier::external_body]
    /// Session::on_incoming_flow (unit SESSION): on Ok the window has been recomputed from the flow AND the transfers it releases are in the returned frames
    /// ([C07.drain.complete]: nothing stays held back while the window is open); on Err(UnattachedHandle) the window HAS been recomputed (on_incoming_flow_inner runs
    /// first) but the drain that follows was skipped by the `?`
    #[verifier::external_body]
    pub fn on_incoming_flow(&mut self, flow: Flow) -> (r: Result<Option<SessionOutgoingItem>, SessionInnerError>)
        ensures r is Ok ==> !final(self).releasable@,
            final(self).releasable@ == (final(self).remote_incoming_window > 0 && final(self).remote_incoming_window_exhausted_buffer.n@ > 0),
            flow.handle is Some && !old(self).link_by_input_handle@.contains_key(flow.handle->Some_0.0) ==> r is Err && r->Err_0 is UnattachedHandle,   // [C15.flow.unattached] of unit SESSION
            final(self).link_by_input_handle@.dom() == old(self).link_by_input_handle@.dom(),
    { unimplemented!() }
    /// Session::prepare_session_frames_from_buffered_transfers (unit SESSION, [C07.drain.complete]): afterwards nothing is held back while the window is open
    #[verifier::external_body]
    pub fn prepare_session_frames_from_buffered_transfers(&mut self, output_frame_buffer: Vec<SessionFrame>) -> (r: Result<Vec<SessionFrame>, SessionInnerError>)
        ensures !final(self).releasable@, final(self).link_by_input_handle == old(self).link_by_input_handle,
            r is Ok,       // [C07.drain.total] of unit SESSION
    { unimplemented!() }
    /// Session::on_incoming_transfer (unit SESSION): the frame is COUNTED (next-incoming-id, remote-outgoing-window, need-flow-count: [C07.recv.*]) and routed by its handle
    #[verifier::external_body]
    pub fn on_incoming_transfer(&mut self, transfer: Transfer, payload: Payload) -> (r: Result<Option<Disposition>, SessionInnerError>)
        ensures final(self).counted@ == old(self).counted@ + 1, final(self).link_by_input_handle@.dom() == old(self).link_by_input_handle@.dom(),
    { unimplemented!() }
    /// Session::on_incoming_detach (unit SESSION, [C15.detach.unattached] / [C13.link.peer-detach-not-fatal])
    #[verifier::external_body]
    pub fn on_incoming_detach(&mut self, detach: Detach) -> (r: Result<(), SessionInnerError>)
        ensures
            final(self).link_by_input_handle@ == old(self).link_by_input_handle@.remove(detach.handle.0),
            old(self).link_by_input_handle@.contains_key(detach.handle.0) ==> r is Ok,
            !old(self).link_by_input_handle@.contains_key(detach.handle.0) ==> r is Err && r->Err_0 is UnattachedHandle,
    { unimplemented!() }
    /// Session::allocate_incoming_link (unit SESSION): on Ok the relay is registered under the peer's handle
    #[verifier::external_body]
    pub fn allocate_incoming_link(&mut self, link_name: String, link_handle: LinkRelayIn, input_handle: InputHandle) -> (r: Result<OutputHandle, AllocLinkError>)
        ensures r is Ok ==> final(self).link_by_input_handle@.contains_key(input_handle.0) && applied_of(final(self).link_by_input_handle@[input_handle.0]).len() == 0,
            r is Err ==> final(self).link_by_input_handle@ == old(self).link_by_input_handle@,
    { unimplemented!() }
}
/// `map.remove(&h)`
#[verifier::external_body]
pub fn pending_remove(m: &mut PendingFlows, h: &InputHandle) -> (r: Option<Vec<LinkFlow>>)
    ensures final(m)@ == old(m)@.remove(h.0), (match r { Some(v) => old(m)@.contains_key(h.0) && v@ == old(m)@[h.0], None => !old(m)@.contains_key(h.0) }),
{ unimplemented!() }
#[verifier::external_body]
pub struct PendingFlows { m: Vec<u8> }
impl PendingFlows {
    #[verifier::external_body]
    pub fn contains_key(&self, h: &InputHandle) -> (r: bool) ensures r == self@.contains_key(h.0) { unimplemented!() }
}
impl View for PendingFlows { type V = Map<u32, Seq<LinkFlow>>; uninterp spec fn view(&self) -> Map<u32, Seq<LinkFlow>>; }
/// `map.entry(h).or_default().push(f)`
#[verifier::external_body]
pub fn pending_push(m: &mut PendingFlows, h: InputHandle, f: LinkFlow)
    ensures final(m)@ == old(m)@.insert(h.0, (if old(m)@.contains_key(h.0) { old(m)@[h.0] } else { Seq::<LinkFlow>::empty() }).push(f)),
{ unimplemented!() }
/// `map.get_mut(&h)`
#[verifier::external_body]
pub fn pending_get_mut<'a>(m: &'a mut PendingFlows, h: &InputHandle) -> (r: Option<&'a mut Vec<LinkFlow>>)
    ensures
        !old(m)@.contains_key(h.0) ==> r is None && final(m)@ == old(m)@,
        old(m)@.contains_key(h.0) ==> r is Some && (*r->Some_0)@ == old(m)@[h.0] && final(m)@ == old(m)@.insert(h.0, (*final(r->Some_0))@),
{ unimplemented!() }
/// `map.entry(h).or_default();`
#[verifier::external_body]
pub fn pending_note(m: &mut PendingFlows, h: InputHandle)
    ensures final(m)@ == (if old(m)@.contains_key(h.0) { old(m)@ } else { old(m)@.insert(h.0, Seq::<LinkFlow>::empty()) }),
{ unimplemented!() }
/// `pending_attach` (ghost): the peer's handles whose attach has been queued for the application's LinkAcceptor (link_listener) and not been accepted yet -- they are registered in link_by_input_handle only by allocate_incoming_link
pub struct ListenerSession { pub session: SessionS, pub link_listener: ChanSender<Attach>, pub pending_link_flows: PendingFlows, pub pending_attach: Ghost<Set<u32>> }
pub struct Detach { pub handle: Handle, pub closed: bool }

impl ListenerSession {
//@@ fn file=fe2o3-amqp/src/acceptor/session.rs impl=`impl endpoint::Session for ListenerSession` name=on_incoming_attach
//@@ ret Result<(), SessionInnerError>
//@@ subst `|_v0|` => `|_v0: ChanSendError|` rule=optional-R5
//@@ subst `attach.handle.clone().into()` => `InputHandle::from(attach.handle.clone())` rule=optional-R16
//@@ subst `self.pending_link_flows.entry(input_handle).or_default();` => `pending_note(&mut self.pending_link_flows, input_handle);` rule=optional-R15
//@@ spec
    ensures
        old(self).session.link_by_input_handle@.contains_key(attach.handle.0)
            ==> r == Err::<(), SessionInnerError>(SessionInnerError::HandleInUse) && final(self).session.link_by_input_handle == old(self).session.link_by_input_handle
                && final(self).link_listener.sent@ == old(self).link_listener.sent@,                                  // [C11.route.handle-in-use-refused] [C15.listener.duplicate-attach-refused] (listener side) an attach for a handle that still designates an attached link is refused and reaches neither a link nor the acceptor
        r is Ok && final(self).link_listener.sent@.len() != old(self).link_listener.sent@.len()
            ==> final(self).link_listener.sent@ == old(self).link_listener.sent@.push(attach)
                && final(self).pending_link_flows@.dom() =~= old(self).pending_link_flows@.dom().insert(attach.handle.0),   // [C15.listener.pending-attach-recorded] an attach handed to the application's acceptor marks exactly its own handle as "attach pending" (an entry of pending_link_flows): only for such handles does the session keep pipelined flows ([C15.listener.flow-for-unknown-handle-refused])
        final(self).link_listener.sent@.len() == old(self).link_listener.sent@.len() || r is Err
            ==> final(self).pending_link_flows@ == old(self).pending_link_flows@,                                    // [C15.listener.pending-only-for-queued-attach] nothing else makes a handle pending
        forall|h: u32| old(self).pending_link_flows@.contains_key(h) ==> final(self).pending_link_flows@.contains_key(h) && final(self).pending_link_flows@[h] == old(self).pending_link_flows@[h],   // [C11.listener.flow-kept-for-its-handle] flows already kept are not disturbed by a later attach
//@@ end

//@@ fn file=fe2o3-amqp/src/acceptor/session.rs impl=`impl endpoint::Session for ListenerSession` name=on_incoming_flow
//@@ ret Result<Option<SessionOutgoingItem>, SessionInnerError>
//@@ subst `self.pending_link_flows.get_mut(&input_handle)` => `pending_get_mut(&mut self.pending_link_flows, &input_handle)` rule=optional-R15
//@@ subst `self.pending_link_flows .entry(input_handle) .or_default() .push(link_flow);` => `pending_push(&mut self.pending_link_flows, input_handle, link_flow);` rule=optional-R15
//@@ spec
    ensures
        // a link flow for a handle that is not attached (yet): kept for the link that may be accepted under that handle, the session goes on
        (r is Ok && final(self).pending_link_flows@ != old(self).pending_link_flows@) ==> flow.handle is Some && ({
            let h = flow.handle->Some_0.0;
            let before = if old(self).pending_link_flows@.contains_key(h) { old(self).pending_link_flows@[h] } else { Seq::<LinkFlow>::empty() };
            &&& final(self).pending_link_flows@ == old(self).pending_link_flows@.insert(h, before.push(LinkFlow { handle: flow.handle->Some_0, rest: flow.rest }))   // [C15.listener.flow-unattached-buffered] exactly this flow is appended under exactly its own handle (arrival order kept), nothing else is touched [C11.listener.flow-kept-for-its-handle]
        }),
        r is Err ==> final(self).pending_link_flows@ == old(self).pending_link_flows@,
        flow.handle is Some && old(self).pending_link_flows@.contains_key(flow.handle->Some_0.0) ==> !(r is Err && r->Err_0 is UnattachedHandle),   // [C15.listener.unattached-not-fatal] a flow pipelined behind an attach that the application has not accepted yet never ends the listener session
        flow.handle is Some && !old(self).pending_link_flows@.contains_key(flow.handle->Some_0.0) ==> final(self).pending_link_flows@ == old(self).pending_link_flows@,   // [C15.listener.flow-for-unknown-handle-refused] a flow naming a handle that is neither attached nor waiting to be accepted is not retained (10 000 such flows used to be kept for the life of the session, 2^32 handles to choose from): it is answered as the protocol says -- whatever Session::on_incoming_flow made of it (unattached-handle) is passed on
        flow.handle is Some && !old(self).pending_link_flows@.contains_key(flow.handle->Some_0.0) && !old(self).session.link_by_input_handle@.contains_key(flow.handle->Some_0.0) ==> r is Err,   // [C15.listener.flow-for-unknown-handle-is-an-error] ... and that is an error visible to the application (the session ends with unattached-handle), as on the client side
        r is Ok ==> !final(self).session.releasable@,           // [C07.listener.flow-reopening-window-drains] a flow that re-opens the peer's incoming window releases the transfers the session had parked -- also when its LINK part names a handle that is not accepted yet: swallowing that error must not swallow the drain (the parked transfers would wait for some unrelated later frame, possibly for ever)
//@@ end

//@@ fn file=fe2o3-amqp/src/acceptor/session.rs impl=`impl endpoint::Session for ListenerSession` name=on_incoming_transfer
//@@ ret Result<Option<Disposition>, SessionInnerError>
//@@ spec
    ensures
        final(self).pending_link_flows@ == old(self).pending_link_flows@,
        final(self).session.counted@ == old(self).session.counted@ + 1,      // [C07.listener.every-transfer-frame-counted] the session state the endpoint reports (next-incoming-id, its windows) reflects EVERY transfer frame received: a frame for a handle whose attach still waits to be accepted -- or for no link at all -- is counted like any other before it is set aside; the peer counts it as sent
        r is Err ==> !(r->Err_0 is UnattachedHandle),            // [C15.listener.unattached-not-fatal] [C18.commit.replay-to-a-detached-link-does-not-abort-the-commit] (a commit replays the buffered posts through this function: a post for a link that was closed meanwhile is dropped, the rest of the transaction is still delivered and the commit succeeds) a transfer for a handle that is not attached is ignored (nothing is delivered, nothing answered), the session goes on
//@@ end
//@@ fn file=fe2o3-amqp/src/acceptor/session.rs impl=`impl endpoint::Session for ListenerSession` name=on_incoming_detach
//@@ ret Result<(), SessionInnerError>
//@@ spec
    requires
        forall|h: u32| old(self).pending_attach@.contains(h) ==> !old(self).session.link_by_input_handle@.contains_key(h),
    ensures
        old(self).pending_attach@.contains(detach.handle.0) ==> r is Ok,      // [C13.listener.detach-for-pending-attach-not-fatal] a peer may pipeline attach and detach before the application has accepted the link (fire-and-forget clients do; the listener already keeps pipelined flows and ignores pipelined transfers for that reason): such a detach is not an `unattached-handle` error that ends the whole session -- it has to be remembered and answered in kind once the attach is taken up
//@@ end
//@@ fn file=fe2o3-amqp/src/acceptor/session.rs impl=`impl endpoint::Session for ListenerSession` name=allocate_incoming_link
//@@ attr #[verifier::loop_isolation(false)]
//@@ shape loops=for
//@@ ret Result<OutputHandle, AllocLinkError>
//@@ param link_handle : LinkRelayIn
//@@ subst `self.pending_link_flows.remove(&input_handle)` => `pending_remove(&mut self.pending_link_flows, &input_handle)` rule=R15
//@@ subst `let _echo = flow_state.state.on_incoming_flow(flow, oh.clone());` => `let _echo = flow_state.state_on_incoming_flow(flow, oh.clone()); answer_discarded(&_echo);` rule=R9
//@@ subst `let _echo = flow_state.on_incoming_flow(flow, oh.clone());` => `let _echo = flow_state.on_incoming_flow(flow, oh.clone()); answer_discarded(&_echo);` rule=R9
//@@ subst `flow_state.notifier.notify_waiters()` => `flow_state.notify_waiters()` rule=R9
//@@ spec
    ensures
        r is Ok ==> ({
            let h = input_handle.0;
            let pend = if old(self).pending_link_flows@.contains_key(h) { old(self).pending_link_flows@[h] } else { Seq::<LinkFlow>::empty() };
            &&& final(self).pending_link_flows@ == old(self).pending_link_flows@.remove(h)                                          // [C15.listener.pending-flows-released] what was kept for this handle is handed over once and forgotten
            &&& final(self).session.link_by_input_handle@.contains_key(h)
            &&& applied_of(final(self).session.link_by_input_handle@[h]) =~= pend                                                  // [C08.listener.pending-flows-replayed-in-order] the flows that arrived before the link was accepted are applied to ITS relay, all of them, in arrival order [C11.listener.flow-kept-for-its-handle]
            &&& (final(self).session.link_by_input_handle@[h] is Sender ==> final(self).session.link_by_input_handle@[h]->Sender_flow_state.notified_at@ == pend.len() || pend.len() == 0)   // [C08.flow.applied-before-wakeup] and the waiting sender is woken after the last of them has been applied
        }),
        r is Err ==> final(self).pending_link_flows@ == old(self).pending_link_flows@,
//@@ loop 0
        invariant
            __it0.seq() == pending_flows@,
            applied_of(*link_relay) =~= pending_flows@.take(__it0.index@),
            *link_relay is Sender ==> (link_relay->Sender_flow_state.notified_at@ == __it0.index@ || __it0.index@ == 0),
//@@ end

}

} // verus!
fn main() {}
