//@@ unit TXNCOORD
#![feature(allocator_api)]
#![allow(unused_imports, unused_variables, dead_code, unused_mut, unused_parens)]
use vstd::prelude::*;

verus! {

//@@ trusted HashSet<TransactionId> stand-in: std::collections::HashSet modelled as a Set (insert / remove report membership)
//@@ trusted the session (behind `session_control()`, an mpsc channel + oneshot reply) is a stand-in: allocate_transaction_id / commit_transaction / rollback_transaction append the request to a ghost trace and return an arbitrary answer (the resource side of those requests is proved in unit TXN)
//@@ trusted the coordinator's receiver link (ReceiverInner<CoordinatorLink>) is a stand-in: dispose(info, settled, state) appends to a ghost trace or fails; close_with_error is unconstrained
//@@ trusted built as with features transaction + acceptor

macro_rules! opaque {
    ($($n:ident),*) => { verus!{ $(
        #[verifier::external_body]
        pub struct $n { _p: u8 }
        impl Clone for $n { #[verifier::external_body] fn clone(&self) -> (r: Self) ensures r == *self { unimplemented!() } }
    )* } }
}
opaque!(TransactionId, DeliveryInfo, AmqpError, SessionStopReason);
pub struct Accepted {}

#[verifier::external_body]
pub struct HashSet { s: std::collections::HashSet<u8> }
impl View for HashSet { type V = Set<TransactionId>; uninterp spec fn view(&self) -> Set<TransactionId>; }
impl HashSet {
    #[verifier::external_body]
    pub fn insert(&mut self, k: TransactionId) -> (r: bool) ensures final(self)@ == old(self)@.insert(k), r == !old(self)@.contains(k) { unimplemented!() }
    #[verifier::external_body]
    pub fn remove(&mut self, k: &TransactionId) -> (r: bool) ensures final(self)@ == old(self)@.remove(*k), r == old(self)@.contains(*k) { unimplemented!() }    /// HashSet::drain: every element once, in an unspecified order; the set is left empty
    #[verifier::external_body]
    pub fn drain(&mut self) -> (r: Vec<TransactionId>)
        ensures final(self)@ == Set::<TransactionId>::empty(), r@.to_set() == old(self)@, r@.no_duplicates(),
    { unimplemented!() }
}

//@@ type file=fe2o3-amqp-types/src/transaction/mod.rs kind=struct name=Declare
//@@ end
//@@ type file=fe2o3-amqp-types/src/transaction/mod.rs kind=struct name=Discharge
//@@ end
//@@ type file=fe2o3-amqp-types/src/transaction/mod.rs kind=struct name=Declared
//@@ end
//@@ type file=fe2o3-amqp-types/src/transaction/txn_error.rs kind=enum name=TransactionError clone
//@@ end
//@@ type file=fe2o3-amqp/src/transaction/error.rs kind=enum name=CoordinatorError
//@@ end
//@@ type file=fe2o3-amqp/src/transaction/coordinator.rs kind=enum name=SuccessfulOutcome
//@@ end
//@@ type file=fe2o3-amqp/src/util/mod.rs kind=enum name=Running
//@@ end
pub struct Rejected { pub error: Option<TxnRejection> }
/// definitions::Error::new(condition, description, None) with a transaction-error condition
pub struct TxnRejection { pub condition: TransactionError }
pub enum DeliveryState { Declared(Declared), Accepted(Accepted), Rejected(Rejected), Other }
pub enum AllocTxnIdError { NotImplemented, InvalidSessionState }
pub enum DischargeError { InvalidSessionState, TransactionError(TransactionError) }
pub enum IllegalLinkStateError { IllegalState, SessionStopped(SessionStopReason) }

pub trait ErrInto<T>: Sized { spec fn conv(self) -> T; fn err_into(self) -> (r: T) ensures r == self.conv(); }
impl ErrInto<CoordinatorError> for CoordinatorError { open spec fn conv(self) -> CoordinatorError { self } fn err_into(self) -> (r: CoordinatorError) { let e = self; assert(e == <CoordinatorError as ErrInto<CoordinatorError>>::conv(self)); e } }
/// `impl From<AllocTxnIdError> for CoordinatorError` / `impl From<DischargeError> for CoordinatorError` (transaction/error.rs), written out
impl ErrInto<CoordinatorError> for AllocTxnIdError {
    open spec fn conv(self) -> CoordinatorError { match self { AllocTxnIdError::NotImplemented => CoordinatorError::AllocTxnIdNotImplemented, AllocTxnIdError::InvalidSessionState => CoordinatorError::InvalidSessionState } }
    fn err_into(self) -> (r: CoordinatorError) { match self { AllocTxnIdError::NotImplemented => CoordinatorError::AllocTxnIdNotImplemented, AllocTxnIdError::InvalidSessionState => CoordinatorError::InvalidSessionState } }
}
impl ErrInto<CoordinatorError> for DischargeError {
    open spec fn conv(self) -> CoordinatorError { match self { DischargeError::InvalidSessionState => CoordinatorError::InvalidSessionState, DischargeError::TransactionError(e) => CoordinatorError::TransactionError(e) } }
    fn err_into(self) -> (r: CoordinatorError) { match self { DischargeError::InvalidSessionState => CoordinatorError::InvalidSessionState, DischargeError::TransactionError(e) => CoordinatorError::TransactionError(e) } }
}

/// requests the coordinator makes of its session
pub enum SessReq { Allocate, Commit(TransactionId), Rollback(TransactionId), Abort(TransactionId) }
/// `gone`: the session's control channel is closed (the session has stopped)
pub struct SessionCtl { pub reqs: Ghost<Seq<SessReq>>, pub gone: Ghost<bool> }
/// SessionControl as the coordinator's Drop uses it (R11)
pub enum SessionControl { AbortTransaction(TransactionId) }
/// tokio::sync::mpsc::error::TrySendError: the bounded control queue is full right now, or the session is gone
pub enum TrySendError { Full(SessionControl), Closed(SessionControl) }
impl SessionCtl {
    #[verifier::external_body]
    pub fn try_send(&mut self, c: SessionControl) -> (r: Result<(), TrySendError>)
        ensures
            r is Ok ==> final(self).reqs@ == old(self).reqs@.push(SessReq::Abort(c->AbortTransaction_0)),
            r is Err ==> final(self).reqs@ == old(self).reqs@,
            final(self).gone == old(self).gone, (r is Err && r->Err_0 is Closed) == old(self).gone@,
    { unimplemented!() }
}
pub mod session {
    use super::*;
    #[verifier::external_body]
    pub fn allocate_transaction_id(c: &mut SessionCtl) -> (r: Result<TransactionId, AllocTxnIdError>)
        ensures final(c).reqs@ == old(c).reqs@.push(SessReq::Allocate),
    { unimplemented!() }
    #[verifier::external_body]
    pub fn commit_transaction(c: &mut SessionCtl, id: TransactionId) -> (r: Result<Accepted, DischargeError>)
        ensures final(c).reqs@ == old(c).reqs@.push(SessReq::Commit(id)),
    { unimplemented!() }
    #[verifier::external_body]
    pub fn rollback_transaction(c: &mut SessionCtl, id: TransactionId) -> (r: Result<Accepted, DischargeError>)
        ensures final(c).reqs@ == old(c).reqs@.push(SessReq::Rollback(id)),
    { unimplemented!() }
}
/// the link below the receiver endpoint: ReceiverLink::dispose writes the disposition but is NOT the endpoint's disposal -- it does not count the delivery as processed and
/// does not top up the credit of an Auto(n) link (ReceiverInner::dispose does: unit LINKFLOW); present so that a change calling it directly is decided
pub struct RecvLinkS { pub link_disposed: Ghost<Seq<(DeliveryInfo, Option<bool>, DeliveryState)>> }
pub struct OutTx { pub p: u8 }
impl RecvLinkS {
    #[verifier::external_body]
    pub fn dispose(&mut self, out: &OutTx, d: DeliveryInfo, settled: Option<bool>, state: DeliveryState, batchable: bool) -> (r: Result<(), IllegalLinkStateError>)
        ensures r is Ok ==> final(self).link_disposed@ == old(self).link_disposed@.push((d, settled, state)),
    { unimplemented!() }
}
pub struct RecvInner { pub ctl: SessionCtl, pub disposed: Ghost<Seq<(DeliveryInfo, Option<bool>, DeliveryState)>>, pub link: RecvLinkS, pub outgoing: OutTx, pub closes: Ghost<Seq<Option<AmqpError>>>, pub incoming: IncomingS }
/// the endpoint's queue of frames from the session: `close()` stops the session from adding to it; what is in it can still be received
pub struct IncomingS { pub closed: Ghost<bool>, pub pending: Ghost<Seq<DeliveryS>> }
impl IncomingS { #[verifier::external_body] pub fn close(&mut self) ensures final(self).closed@, final(self).pending == old(self).pending { unimplemented!() } }
impl RecvInner {
    #[verifier::external_body]
    pub fn session_control(&mut self) -> (r: &mut SessionCtl)
        ensures *r == old(self).ctl, final(self).ctl == *final(r), final(self).disposed == old(self).disposed, final(self).closes == old(self).closes, final(self).incoming == old(self).incoming,
    { unimplemented!() }
    #[verifier::external_body]
    pub fn dispose(&mut self, d: DeliveryInfo, settled: Option<bool>, state: DeliveryState) -> (r: Result<(), IllegalLinkStateError>)
        ensures
            final(self).ctl == old(self).ctl, final(self).closes == old(self).closes, final(self).incoming == old(self).incoming,
            r is Ok ==> final(self).disposed@ == old(self).disposed@.push((d, settled, state)),
            r is Err ==> final(self).disposed@ == old(self).disposed@,
    { unimplemented!() }
    #[verifier::external_body]
    pub fn close_with_error(&mut self, e: Option<AmqpError>) -> (r: Result<(), IllegalLinkStateError>)
        ensures final(self).ctl == old(self).ctl, final(self).disposed == old(self).disposed, final(self).closes@ == old(self).closes@.push(e), final(self).incoming == old(self).incoming,
    { unimplemented!() }
    /// the next control message, or the reason why there will be none. `pending`: the complete deliveries the queue still holds. Once the queue has been closed nothing is added to it,
    /// and recv() hands out what it holds, in order, before it reports an error (tokio mpsc: a closed channel is drained first)
    #[verifier::external_body]
    pub fn recv(&mut self) -> (r: Result<DeliveryS, RecvError>)
        ensures final(self).ctl == old(self).ctl, final(self).disposed == old(self).disposed, final(self).closes == old(self).closes, final(self).incoming.closed == old(self).incoming.closed,
            old(self).incoming.closed@ && old(self).incoming.pending@.len() > 0 ==> r == Ok::<DeliveryS, RecvError>(old(self).incoming.pending@[0]) && final(self).incoming.pending@ == old(self).incoming.pending@.skip(1),
            old(self).incoming.closed@ && old(self).incoming.pending@.len() == 0 ==> r is Err && final(self).incoming.pending == old(self).incoming.pending,
    { unimplemented!() }
}
#[verifier::external_body]
pub fn illegal_state_error() -> (r: AmqpError) { unimplemented!() }
/// `res.unwrap_or_else(|_err| {})` on a Result<(), E> (the closure only logs): the unit either way
pub trait UnwrapOrUnit { fn unwrap_or_unit(self); }
impl<E> UnwrapOrUnit for Result<(), E> { fn unwrap_or_unit(self) { match self { Ok(v) => v, Err(_e) => () } } }
#[verifier::external_body]
pub struct StopReasonS { _p: u8 }
#[verifier::external_body]
pub struct DecodeErrS { _p: u8 }
//@@ type file=fe2o3-amqp/src/link/error.rs kind=enum name=LinkStateError
//@@ subst `SessionStopReason` => `StopReasonS` rule=R11
//@@ subst `definitions::Error` => `AmqpError` rule=R11
//@@ end
//@@ type file=fe2o3-amqp/src/link/error.rs kind=enum name=RecvError
//@@ subst `MessageDecodeError` => `DecodeErrS` rule=R11
//@@ end
/// the condition an error the coordinator closes its link with is built from (definitions::Error::new(condition, ..)): opaque apart from the condition
pub enum Cond { IllegalState, TransferLimitExceeded, NotAllowed }
pub uninterp spec fn err_of(c: Cond) -> AmqpError;
#[verifier::external_body]
pub fn mk_error(c: Cond) -> (r: AmqpError) ensures r == err_of(c) { unimplemented!() }

pub fn outcome_into(o: SuccessfulOutcome) -> (r: DeliveryState)
    ensures r == (match o { SuccessfulOutcome::Declared(d) => DeliveryState::Declared(d), SuccessfulOutcome::Accepted(a) => DeliveryState::Accepted(a) }),
{ match o { SuccessfulOutcome::Declared(d) => DeliveryState::Declared(d), SuccessfulOutcome::Accepted(a) => DeliveryState::Accepted(a) } }
pub fn txn_rejection(e: TransactionError) -> (r: TxnRejection) ensures r.condition == e { TxnRejection { condition: e } }

/// Delivery<ControlMessageBody> (link/delivery.rs): the decoded control message and the delivery it arrived as
pub enum ControlMessageBody { Declare(Declare), Discharge(Discharge) }
pub struct DeliveryS { pub body: ControlMessageBody, pub info: DeliveryInfo }
impl DeliveryS {
    pub fn body(&self) -> (r: &ControlMessageBody) ensures *r == self.body { &self.body }
    #[verifier::external_body]
    pub fn into_info(self) -> (r: DeliveryInfo) ensures r == self.info { unimplemented!() }
}
pub struct TxnCoordinator { pub inner: RecvInner, pub txn_ids: HashSet }

impl TxnCoordinator {
//@@ fn file=fe2o3-amqp/src/transaction/coordinator.rs impl=`impl TxnCoordinator` name=on_declare
//@@ qmark
//@@ subst `super::session::allocate_transaction_id(self.inner.session_control())` => `session::allocate_transaction_id(self.inner.session_control())` rule=R11
//@@ spec
    ensures
        final(self).inner.incoming == old(self).inner.incoming,       // (the coordinator's handlers do not touch the queue from the session)
        final(self).inner.disposed == old(self).inner.disposed,
        declare.global_id is Some ==> r is Err && final(self).txn_ids@ == old(self).txn_ids@ && final(self).inner.ctl.reqs@ == old(self).inner.ctl.reqs@,   // [C18.coordinator.global-id-refused] a declare with a global id is refused, nothing is allocated
        declare.global_id is None ==> final(self).inner.ctl.reqs@ == old(self).inner.ctl.reqs@.push(SessReq::Allocate),
        r is Ok ==> final(self).txn_ids@ == old(self).txn_ids@.insert(r->Ok_0.txn_id),                                                                    // [C18.coordinator.declared-recorded] the id handed out is the one the session's transaction table allocated, and it is remembered as declared over THIS control link
        r is Err ==> final(self).txn_ids@ == old(self).txn_ids@,
//@@ end

//@@ fn file=fe2o3-amqp/src/transaction/coordinator.rs impl=`impl TxnCoordinator` name=on_discharge
//@@ subst `super::session::rollback_transaction(self.inner.session_control(), txn_id)` => `session::rollback_transaction(self.inner.session_control(), txn_id)` rule=R11
//@@ subst `super::session::commit_transaction(self.inner.session_control(), txn_id)` => `session::commit_transaction(self.inner.session_control(), txn_id)` rule=R11
//@@ subst `.map_err(Into::into)` => `.map_err(|e: DischargeError| -> (o: CoordinatorError) ensures o == e.conv() { e.err_into() })` rule=R17 unless `\.map_err\(`
//@@ spec
    ensures
        final(self).inner.incoming == old(self).inner.incoming,       // (the coordinator's handlers do not touch the queue from the session)
        final(self).inner.disposed == old(self).inner.disposed,
        !old(self).txn_ids@.contains(discharge.txn_id) ==> r == Err::<Accepted, CoordinatorError>(CoordinatorError::TransactionError(TransactionError::UnknownId))
            && final(self).inner.ctl.reqs@ == old(self).inner.ctl.reqs@ && final(self).txn_ids@ == old(self).txn_ids@,                                       // [C18.coordinator.unknown-id-refused] discharging an id that was never declared on this link, or was already discharged, is refused with the transaction error and nothing reaches the transaction table
        old(self).txn_ids@.contains(discharge.txn_id) ==> final(self).txn_ids@ == old(self).txn_ids@.remove(discharge.txn_id)                              // [C18.coordinator.discharge-once] the id is spent by the discharge (whatever its outcome): a second discharge finds it unknown
            && final(self).inner.ctl.reqs@ == old(self).inner.ctl.reqs@.push(if discharge.fail == Some(true) { SessReq::Rollback(discharge.txn_id) } else { SessReq::Commit(discharge.txn_id) }),   // [C18.coordinator.fail-flag] fail=true rolls back, fail=false or unset commits -- exactly one request, for exactly this id
//@@ end

//@@ fn file=fe2o3-amqp/src/transaction/coordinator.rs impl=`impl TxnCoordinator` name=reject
//@@ param description : Option<String>
//@@ subst `definitions::Error::new(error, description, None)` => `txn_rejection(error)` rule=R11
//@@ spec
    ensures
        final(self).inner.incoming == old(self).inner.incoming,       // (the coordinator's handlers do not touch the queue from the session)
        final(self).txn_ids == old(self).txn_ids && final(self).inner.ctl == old(self).inner.ctl,
        r is Ok ==> final(self).inner.disposed@ == old(self).inner.disposed@.push((delivery_info, Some(true), DeliveryState::Rejected(Rejected { error: Some(TxnRejection { condition: error }) }))),   // [C18.coordinator.rejection] [C09.coordinator.disposal-through-the-endpoint] a refused control message is disposed of through the receiver ENDPOINT (which counts it and re-issues the control link's credit), not past it; a refused control message is settled with a rejected outcome carrying the transaction error
        r is Err ==> final(self).inner.disposed@ == old(self).inner.disposed@,
//@@ end

//@@ fn file=fe2o3-amqp/src/transaction/coordinator.rs impl=`impl TxnCoordinator` name=handle_delivery_result
//@@ subst `outcome.into()` => `outcome_into(outcome)` rule=R16
//@@ subst `let description = "Global transaction ID is not implemented".to_string();` => `let description: Option<String> = None;` rule=R9
//@@ subst `let description = "Allocation of new transaction ID is not implemented".to_string();` => `let description: Option<String> = None;` rule=R9
//@@ subst `definitions::Error::new(AmqpError::IllegalState, None, None)` => `illegal_state_error()` rule=R11
//@@ spec
    ensures
        final(self).inner.incoming == old(self).inner.incoming,       // (the coordinator's handlers do not touch the queue from the session)
        final(self).txn_ids == old(self).txn_ids && final(self).inner.ctl == old(self).inner.ctl,
        result is Ok && r is Continue ==> final(self).inner.disposed@ == old(self).inner.disposed@.push((delivery_info, Some(true), (match result->Ok_0 {
            SuccessfulOutcome::Declared(d) => DeliveryState::Declared(d), SuccessfulOutcome::Accepted(a) => DeliveryState::Accepted(a) }))),                 // [C18.coordinator.outcome-reported] the controller is told the outcome: declared with the new id, or accepted
        result is Err && result->Err_0 is TransactionError && r is Continue ==> final(self).inner.disposed@ == old(self).inner.disposed@.push((delivery_info, Some(true),
            DeliveryState::Rejected(Rejected { error: Some(TxnRejection { condition: result->Err_0->TransactionError_0 }) }))),                                // [C18.coordinator.rejection]
        final(self).inner.disposed@.len() <= old(self).inner.disposed@.len() + 1,
        final(self).inner.disposed@.len() == old(self).inner.disposed@.len() + 1 ==> final(self).inner.disposed@.last().0 == delivery_info,       // [C18.coordinator.answer-names-the-request] whatever the answer is, it is the answer to the delivery it was asked for
        final(self).inner.disposed@.len() == old(self).inner.disposed@.len() + 1 ==> r is Continue,       // [C18.coordinator.keeps-serving-after-an-answer] once the answer to a declare or discharge has been written the coordinator goes on serving the control link -- the id it has just handed out can still be discharged
        r is Continue ==> final(self).inner.disposed@.len() == old(self).inner.disposed@.len() + 1,       // [C18.coordinator.no-answer-no-service] it only goes on when the request HAS been answered: a session that is gone, or a link that no longer takes the disposition, ends it (its Drop then rolls back what was declared)
//@@ end

//@@ fn file=fe2o3-amqp/src/transaction/coordinator.rs impl=`impl TxnCoordinator` name=on_delivery
//@@ blockarms
//@@ param delivery : DeliveryS
//@@ subst `.map(SuccessfulOutcome::Declared)` => `.map(|d: Declared| -> (o: SuccessfulOutcome) ensures o == SuccessfulOutcome::Declared(d) { SuccessfulOutcome::Declared(d) })` rule=R18
//@@ subst `.map(SuccessfulOutcome::Accepted)` => `.map(|a: Accepted| -> (o: SuccessfulOutcome) ensures o == SuccessfulOutcome::Accepted(a) { SuccessfulOutcome::Accepted(a) })` rule=R18
//@@ subst `let delivery_info: DeliveryInfo = delivery.into();` => `let delivery_info: DeliveryInfo = delivery.into_info();` rule=R16
//@@ spec
    ensures
        final(self).inner.incoming == old(self).inner.incoming,       // (the coordinator's handlers do not touch the queue from the session)
        final(self).inner.disposed@.len() <= old(self).inner.disposed@.len() + 1,
        final(self).inner.disposed@.len() == old(self).inner.disposed@.len() + 1 ==> final(self).inner.disposed@.last().0 == delivery.info,       // [C18.coordinator.answer-names-the-request] the outcome the coordinator reports is reported for THIS control message (its delivery), not for another
        (match delivery.body {
            ControlMessageBody::Declare(declare) => declare.global_id is None ==> final(self).inner.ctl.reqs@ == old(self).inner.ctl.reqs@.push(SessReq::Allocate),       // [C18.coordinator.declare-allocates] a declare asks the session for a new transaction
            ControlMessageBody::Discharge(discharge) => old(self).txn_ids@.contains(discharge.txn_id)
                ==> final(self).inner.ctl.reqs@ == old(self).inner.ctl.reqs@.push(if discharge.fail == Some(true) { SessReq::Rollback(discharge.txn_id) } else { SessReq::Commit(discharge.txn_id) })
                    && final(self).txn_ids@ == old(self).txn_ids@.remove(discharge.txn_id),       // [C18.coordinator.discharge-dispatched] a discharge commits or rolls back THAT transaction, once
        }),
//@@ end

//@@ fn file=fe2o3-amqp/src/transaction/coordinator.rs impl=`impl TxnCoordinator` name=on_recv_error
//@@ orsplit
//@@ blockarms
//@@ subst `definitions::Error::new(AmqpError::IllegalState, None, None)` => `mk_error(Cond::IllegalState)` rule=R11
//@@ subst `definitions::Error::new(LinkError::TransferLimitExceeded, None, None)` => `mk_error(Cond::TransferLimitExceeded)` rule=R11
//@@ subst `definitions::Error::new(AmqpError::NotAllowed, format!("{:?}", error), None)` => `mk_error(Cond::NotAllowed)` rule=R11
//@@ subst `crate::link::LinkStateError::` => `LinkStateError::` rule=R6
//@@ subst `.unwrap_or_else(|_err| { })` => `.unwrap_or_unit()` rule=optional-R19
//@@ spec
    ensures
        r is Stop,       // [C18.coordinator.receive-error-ends-the-coordinator] whatever the control link's receive reports -- the peer detached or closed it, the session stopped, a malformed control message -- the coordinator task ENDS (its Drop then aborts every transaction that was declared over the link and not discharged): it never goes on polling a link that is gone
        final(self).inner.disposed == old(self).inner.disposed, final(self).inner.ctl == old(self).inner.ctl, final(self).txn_ids == old(self).txn_ids, final(self).inner.incoming == old(self).inner.incoming,
        final(self).inner.closes@.len() <= old(self).inner.closes@.len() + 1,       // [C13.coordinator.at-most-one-detach] at most one detach is written for the control link's attach
        (error is LinkStateError && error->LinkStateError_0 is SessionStopped) ==> final(self).inner.closes == old(self).inner.closes,       // (the session is gone: there is nobody to write to)
        (error is LinkStateError && (error->LinkStateError_0 is RemoteDetached || error->LinkStateError_0 is RemoteClosed || error->LinkStateError_0 is RemoteDetachedWithError || error->LinkStateError_0 is RemoteClosedWithError))
            ==> final(self).inner.closes@ == old(self).inner.closes@.push(None::<AmqpError>),       // [C13.coordinator.peer-detach-answered] the controller's detach of the control link is answered, without an error of the coordinator's own
        (error is TransferLimitExceeded) ==> final(self).inner.closes@ == old(self).inner.closes@.push(Some(err_of(Cond::TransferLimitExceeded))),       // [C15.coordinator.malformed-control-message-closes-the-link-with-the-reason] a control message the coordinator cannot accept closes the control link with an error condition that says why -- the session and the connection stay up
        (error is DeliveryIdIsNone || error is DeliveryTagIsNone || error is MessageDecode || error is IllegalRcvSettleModeInTransfer || error is InconsistentFieldInMultiFrameDelivery || error is TransactionalAcquisitionIsNotImeplemented)
            ==> final(self).inner.closes@ == old(self).inner.closes@.push(Some(err_of(Cond::NotAllowed))),
//@@ end

//@@ fn file=fe2o3-amqp/src/transaction/coordinator.rs impl=`impl TxnCoordinator` name=event_loop as=event_loop_arm_recv
//@@ shape loops=whilelet
//@@ selectarm `delivery = self.inner.recv()`
//@@ addparam delivery: Result<DeliveryS, RecvError>
//@@ ret (Running, bool)
//@@ subst `(mut self)` => `(&mut self)` rule=R32
//@@ loop 0 optional
                            invariant self.inner.incoming.closed@,
                            ensures self.inner.incoming.pending@.len() == 0,
                            decreases self.inner.incoming.pending@.len(),
//@@ spec
    ensures
        delivery is Err ==> r.0 is Stop,       // [C18.coordinator.receive-error-ends-the-coordinator]
        delivery is Err ==> final(self).inner.incoming.closed@ && final(self).inner.incoming.pending@.len() == 0,       // [C18.coordinator.queued-control-messages-handled-before-the-link-goes] when the control link reports that it is going away, the queue from the session is closed and EVERY control message still in it -- a discharge that arrived just before the detach -- is taken out and handled before the detach is answered and the coordinator ends: a commit the controller has sent is not lost because its detach followed closely
//@@ end

//@@ fn file=fe2o3-amqp/src/transaction/coordinator.rs impl=`impl Drop for TxnCoordinator` name=drop
//@@ attr #[verifier::loop_isolation(false)]
//@@ shape loops=for
//@@ subst `self.txn_ids.drain()` => `__drained` rule=R9
//@@ entry
        let __drained = self.txn_ids.drain();       // the iterator expression of the `for`, hoisted (evaluated once, before the first iteration, as in the source)
        let ghost __ids0: Seq<TransactionId> = __drained@;
//@@ spec
    ensures
        ({
            let new_reqs = final(self).inner.ctl.reqs@.skip(old(self).inner.ctl.reqs@.len() as int);
            ||| forall|id: TransactionId| old(self).txn_ids@.contains(id) ==> new_reqs.contains(SessReq::Abort(id))
            ||| final(self).inner.ctl.gone@
        }),                                                                                                    // [C18.abandoned.all-aborted] when the control link goes away every transaction declared over it and not discharged is aborted -- all of them, however many, unless the session itself is gone: a transaction left behind stays live for ever, its posts are accepted and buffered instead of refused
//@@ loop 0
        invariant
            __it0.seq().to_set() == old(self).txn_ids@, __it0.seq() == __ids0,
            self.inner.ctl.gone == old(self).inner.ctl.gone,
            self.inner.ctl.reqs@ =~= old(self).inner.ctl.reqs@ + Seq::new(__it0.index@ as nat, |k: int| SessReq::Abort(__it0.seq()[k])),
//@@ exit
        proof {
            let n0 = old(self).inner.ctl.reqs@.len() as int;
            let new_reqs = self.inner.ctl.reqs@.skip(n0);
            let ids = __ids0;
            assert(new_reqs =~= Seq::new(ids.len(), |k: int| SessReq::Abort(ids[k])));
            assert forall|id: TransactionId| old(self).txn_ids@.contains(id) implies new_reqs.contains(SessReq::Abort(id)) by {
                assert(ids.to_set().contains(id));
                let k = choose|k: int| 0 <= k < ids.len() && ids[k] == id;
                assert(new_reqs[k] == SessReq::Abort(id));
            }
        }
//@@ end
}

} // verus!
fn main() {}
