//! Re-executes a Kani harness body on the REAL crates with the concrete values of a counterexample.
//! usage: verif-replay <harness> <hex bytes of all kani::any() values, call order, little endian>
#![allow(unused)]
#[path = "../../kani/shared/src_trait.rs"]
mod src_trait;
#[path = "../../kani/shared/bodies_codec.rs"]
mod bodies;

// ---------------------------------------------------------------- bounded dynamic probes of the real decoder (C04): `verif-replay probe <what> ...`
mod probe {
    use std::alloc::{GlobalAlloc, Layout, System};
    use std::sync::atomic::{AtomicUsize, Ordering};
    pub static MAX: AtomicUsize = AtomicUsize::new(0);
    pub struct Counting;
    unsafe impl GlobalAlloc for Counting {
        unsafe fn alloc(&self, l: Layout) -> *mut u8 { MAX.fetch_max(l.size(), Ordering::SeqCst); System.alloc(l) }
        unsafe fn alloc_zeroed(&self, l: Layout) -> *mut u8 { MAX.fetch_max(l.size(), Ordering::SeqCst); System.alloc_zeroed(l) }
        unsafe fn realloc(&self, p: *mut u8, l: Layout, n: usize) -> *mut u8 { MAX.fetch_max(n, Ordering::SeqCst); System.realloc(p, l, n) }
        unsafe fn dealloc(&self, p: *mut u8, l: Layout) { System.dealloc(p, l) }
    }

    /// `depth` nested list32 headers around a list0: d0 <size> <count=1> ( ... 45 )
    pub fn nested_list32(depth: usize) -> Vec<u8> {
        let mut buf = Vec::with_capacity(9 * depth + 1);
        for i in 0..depth {
            let inner_len = 1 + 9 * (depth - i - 1);
            buf.push(0xd0);
            buf.extend_from_slice(&((4 + inner_len) as u32).to_be_bytes());
            buf.extend_from_slice(&1u32.to_be_bytes());
        }
        buf.push(0x45);
        buf
    }

    pub fn run(args: &[String]) -> i32 {
        match args.get(0).map(|s| s.as_str()) {
            Some("nest") => {
                let depth: usize = args[1].parse().unwrap();
                let buf = nested_list32(depth);
                let r: Result<serde_amqp::Value, _> = serde_amqp::from_slice(&buf);
                println!("PROBE nest depth={} input_len={} returned {}", depth, buf.len(), if r.is_ok() { "Ok" } else { "Err" });
                0
            }
            Some("alloc") => {
                // hostile declared lengths in front of almost no data: the largest single allocation must stay near the input size
                let limit: usize = args[1].parse().unwrap();
                let mut worst = 0usize;
                let mut worst_case = String::new();
                let mut inputs: Vec<(String, Vec<u8>)> = Vec::new();
                for (name, code) in [("str32", 0xb1u8), ("vbin32", 0xb0), ("sym32", 0xb3)] {
                    for len in [0x0010_0000u32, 0x4000_0000, 0x7fff_ffff, 0xffff_fff0] {
                        let mut b = vec![code];
                        b.extend_from_slice(&len.to_be_bytes());
                        b.extend_from_slice(b"abc");
                        inputs.push((format!("{} len={:#x}", name, len), b));
                    }
                }
                // described value / list / map / array bodies that announce far more than they hold
                inputs.push(("list32 size".into(), vec![0xd0, 0x7f, 0xff, 0xff, 0xff, 0, 0, 0, 1, 0x40]));
                inputs.push(("map32 size".into(), vec![0xd1, 0x7f, 0xff, 0xff, 0xff, 0, 0, 0, 2, 0x40, 0x40]));
                inputs.push(("array32 of str32".into(), vec![0xf0, 0x7f, 0xff, 0xff, 0xff, 0, 0, 0, 1, 0xb1, 0x7f, 0xff, 0xff, 0xf0]));
                inputs.push(("described str32".into(), vec![0x00, 0x53, 0x77, 0xb1, 0x40, 0, 0, 0]));
                // hostile element COUNTS in front of no elements at all (a count is a field the peer chose, like a size): nothing may be reserved by it
                for count in [0x0000_ffffu32, 0x0001_0000, 0x00ff_ffff, 0xffff_fffe] {
                    let c = count.to_be_bytes();
                    inputs.push((format!("list32 count={:#x}", count), vec![0xd0, 0, 0, 0, 4, c[0], c[1], c[2], c[3]]));
                    inputs.push((format!("map32 count={:#x}", count), vec![0xd1, 0, 0, 0, 4, c[0], c[1], c[2], c[3]]));
                    inputs.push((format!("array32 count={:#x}", count), vec![0xf0, 0, 0, 0, 5, c[0], c[1], c[2], c[3], 0x40]));
                    inputs.push((format!("map32 count={:#x} as the first key of a map", count), vec![0xd1, 0, 0, 0, 13, 0, 0, 0, 2, 0xd1, 0, 0, 0, 4, c[0], c[1], c[2], c[3]]));
                }
                inputs.push(("list8 count=255".into(), vec![0xc0, 0x01, 0xff]));
                inputs.push(("map8 count=254".into(), vec![0xc1, 0x01, 0xfe]));
                inputs.push(("array8 count=255".into(), vec![0xe0, 0x02, 0xff, 0x40]));
                for (name, b) in inputs.iter() {
                    for mode in 0..9 {
                        MAX.store(0, Ordering::SeqCst);
                        let which = match mode {
                            0 => { let _: Result<serde_amqp::Value, _> = serde_amqp::from_slice(b); "from_slice::<Value>" }
                            1 => { let _: Result<serde_amqp::Value, _> = serde_amqp::from_reader(&b[..]); "from_reader::<Value>" }
                            2 => { let _: Result<serde_amqp::lazy::LazyValue, _> = serde_amqp::from_slice(b); "from_slice::<LazyValue>" }
                            3 => { let _: Result<serde_amqp::lazy::LazyValue, _> = serde_amqp::from_reader(&b[..]); "from_reader::<LazyValue>" }
                            4 => { let _: Result<serde_amqp::primitives::OrderedMap<serde_amqp::Value, serde_amqp::Value>, _> = serde_amqp::from_slice(b); "from_slice::<OrderedMap<Value, Value>>" }
                            5 => { let _: Result<Vec<serde_amqp::Value>, _> = serde_amqp::from_slice(b); "from_slice::<Vec<Value>>" }
                            6 => { let _: Result<serde_amqp::primitives::Array<serde_amqp::Value>, _> = serde_amqp::from_slice(b); "from_slice::<Array<Value>>" }
                            7 => { let _: Result<std::collections::BTreeMap<serde_amqp::Value, serde_amqp::Value>, _> = serde_amqp::from_reader(&b[..]); "from_reader::<BTreeMap<Value, Value>>" }
                            _ => { let _: Result<std::collections::HashMap<String, serde_amqp::Value>, _> = serde_amqp::from_slice(b); "from_slice::<HashMap<String, Value>>" }
                        };
                        let m = MAX.load(Ordering::SeqCst);
                        if m > worst { worst = m; worst_case = format!("{} via {} input={:02x?}", name, which, b); }
                    }
                }
                println!("PROBE alloc largest single allocation {} bytes ({})", worst, worst_case);
                if worst > limit { println!("PROBE alloc FAILS-ON-REAL-CODE: {} > limit {}", worst, limit); 1 } else { 0 }
            }
            _ => { eprintln!("usage: verif-replay probe nest <depth> | alloc <limit>"); 2 }
        }
    }
}
#[global_allocator]
static ALLOC: probe::Counting = probe::Counting;

fn main() {
    let args: Vec<String> = std::env::args().collect();
    if args.len() >= 2 && args[1] == "probe" { std::process::exit(probe::run(&args[2..])); }
    if args.len() < 3 { eprintln!("usage: verif-replay <harness> <hex>"); std::process::exit(2); }
    let name = args[1].clone();
    let hex = args[2].clone();
    let data: Vec<u8> = (0..hex.len() / 2).map(|i| u8::from_str_radix(&hex[2 * i..2 * i + 2], 16).unwrap()).collect();
    std::panic::set_hook(Box::new(|_| {}));
    let r = std::panic::catch_unwind(move || {
        let mut src = src_trait::ReplaySrc { data, pos: 0, assumption_violated: false };
        let known = bodies::dispatch(&name, &mut src);
        (known, src.assumption_violated)
    });
    match r {
        Ok((false, _)) => { println!("REPLAY unknown-harness"); std::process::exit(2); }
        Ok((true, true)) => { println!("REPLAY outcome=input-violates-harness-assumption"); std::process::exit(3); }
        Ok((true, false)) => { println!("REPLAY outcome=ok (no panic, all assertions hold on the real code)"); std::process::exit(0); }
        Err(e) => {
            let msg = if let Some(s) = e.downcast_ref::<String>() { s.clone() } else if let Some(s) = e.downcast_ref::<&str>() { s.to_string() } else { "panic".to_string() };
            println!("REPLAY outcome=FAILS-ON-REAL-CODE panic: {}", msg);
            std::process::exit(1);
        }
    }
}
