//! Re-executes a Kani harness body on the REAL crates with the concrete values of a counterexample.
//! usage: verif-replay <harness> <hex bytes of all kani::any() values, call order, little endian>
#![allow(unused)]
#[path = "../../kani/shared/src_trait.rs"]
mod src_trait;
#[path = "../../kani/shared/bodies_codec.rs"]
mod bodies;

fn main() {
    let args: Vec<String> = std::env::args().collect();
    if args.len() < 3 { eprintln!("usage: verif-replay <harness> <hex>"); std::process::exit(2); }
    let name = args[1].clone();
    let hex = args[2].clone();
    let data: Vec<u8> = (0..hex.len() / 2).map(|i| u8::from_str_radix(&hex[2 * i..2 * i + 2], 16).unwrap()).collect();
    std::panic::set_hook(Box::new(|_| {}));
    let r = std::panic::catch_unwind(move || {
        let mut src = src_trait::ReplaySrc { data, pos: 0, assumption_violated: false };
        let known = bodies::dispatch(&name, &mut src);
        (known, src.assumption_violated)
    });
    match r {
        Ok((false, _)) => { println!("REPLAY unknown-harness"); std::process::exit(2); }
        Ok((true, true)) => { println!("REPLAY outcome=input-violates-harness-assumption"); std::process::exit(3); }
        Ok((true, false)) => { println!("REPLAY outcome=ok (no panic, all assertions hold on the real code)"); std::process::exit(0); }
        Err(e) => {
            let msg = if let Some(s) = e.downcast_ref::<String>() { s.clone() } else if let Some(s) = e.downcast_ref::<&str>() { s.to_string() } else { "panic".to_string() };
            println!("REPLAY outcome=FAILS-ON-REAL-CODE panic: {}", msg);
            std::process::exit(1);
        }
    }
}
